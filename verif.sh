#!/bin/bash
# Entry point of the wasp runtime-monitoring checks.
#   ./verif.sh setup                      warm the build cache (offline)
#   ./verif.sh check <id> <quick|thorough>
#   ./verif.sh replay <path>
#   ./verif.sh baseline-off               repository suite with the verif tag off
set -u
export GOFLAGS=-mod=mod GOPROXY=off GOSUMDB=off GOTOOLCHAIN=local CGO_ENABLED=1
ROOT="$(cd "$(dirname "$0")" && pwd)"
export VERIF_ROOT="$ROOT"
BIN="$ROOT/.work/bin"
mkdir -p "$BIN"

build() { # build <race|plain> -> prints binary path
  local kind="$1" out="$BIN/wv.$1.$$"
  local flags=(-tags verif)
  [ "$kind" = race ] && flags+=(-race)
  (cd "$ROOT/harness" && go build "${flags[@]}" -o "$out" ./cmd/wv) || return 1
  echo "$out"
}

case "${1:-}" in
  setup)
    (cd "$ROOT/harness" && go build -tags verif -o "$BIN/wv.setup" ./cmd/wv && go build -tags verif -race -o "$BIN/wv.setup.race" ./cmd/wv) || exit 1
    rm -f "$BIN/wv.setup" "$BIN/wv.setup.race"
    echo "setup ok"
    ;;
  check)
    id="${2:?id}"; tier="${3:-quick}"
    kind=plain
    case " ${VERIF_RACE_CHECKS:-C20} " in *" $id "*) kind=race;; esac
    bin="$(build $kind)" || { echo "build failed"; exit 2; }
    trap 'rm -f "$bin"' EXIT
    "$bin" check "$id" "$tier"
    exit $?
    ;;
  replay)
    path="${2:?path}"
    id="$(basename "$path" | cut -d- -f1)"
    kind=plain
    case " ${VERIF_RACE_CHECKS:-C20} " in *" $id "*) kind=race;; esac
    bin="$(build $kind)" || { echo "build failed"; exit 2; }
    trap 'rm -f "$bin"' EXIT
    "$bin" replay "$path"
    exit $?
    ;;
  baseline-off)
    cd /repo && go test -vet=off -count=1 -timeout 25m ./...
    ;;
  *)
    echo "usage: $0 setup | check <id> <quick|thorough> | replay <path> | baseline-off" >&2
    exit 2
    ;;
esac
