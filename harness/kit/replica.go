// Package kit assembles wasp's real components into in-process nodes and
// drives them: replicas of the gossip-replicated state, whole broker nodes
// over net.Pipe, the gossip pump, an MQTT wire codec for harness clients.
package kit

import (
	"context"
	"errors"
	"sort"
	"strings"
	"sync/atomic"

	"github.com/golang/protobuf/proto"
	"github.com/hashicorp/memberlist"
	"github.com/vx-labs/wasp/v4/wasp/api"
	"github.com/vx-labs/wasp/v4/wasp/audit"
	"github.com/vx-labs/wasp/v4/wasp/distributed"

	"wv/model"
)

// NewQueue returns a broadcast queue that hands every broadcast out exactly
// once (RetransmitMult 1, NumNodes 1): delivery is then entirely under the
// harness's control.
func NewQueue() *memberlist.TransmitLimitedQueue {
	return &memberlist.TransmitLimitedQueue{RetransmitMult: 1, NumNodes: func() int { return 1 }}
}

// Replica is one instance of wasp's replicated state with its queue.
type Replica struct {
	ID uint64
	S  distributed.State
	Q  *memberlist.TransmitLimitedQueue
}

func NewReplica(id uint64) *Replica {
	q := NewQueue()
	return &Replica{ID: id, Q: q, S: distributed.NewState(id, q, audit.NoneRecorder())}
}

// Drain returns every queued broadcast payload, in queue order.
func (r *Replica) Drain() [][]byte {
	var out [][]byte
	for {
		bs := r.Q.GetBroadcasts(0, 1<<30)
		if len(bs) == 0 {
			return out
		}
		out = append(out, bs...)
	}
}

func (r *Replica) Deliver(payload []byte) { r.S.Distributor().NotifyMsg(payload) }

// Canon is the canonical visible state of a replica: what it lists.
type Canon struct {
	Sessions, Subs, Topics []string
}

func (c Canon) String() string {
	return "sessions{" + strings.Join(c.Sessions, "; ") + "} subscriptions{" + strings.Join(c.Subs, "; ") + "} retained{" + strings.Join(c.Topics, "; ") + "}"
}

func (c Canon) Equal(o Canon) bool { return c.String() == o.String() }

func FmtSession(s *api.SessionMetadatas) string { return model.FmtSession(s) }
func FmtSub(s *api.Subscription) string         { return model.FmtSub(s) }
func FmtTopic(m *api.RetainedMessage) string    { return model.FmtTopic(m) }

// Canon lists everything the replica shows through its exported listings.
func (r *Replica) Canon() Canon { return CanonOf(r.S) }

func CanonOf(s distributed.State) Canon {
	c := Canon{Sessions: []string{}, Subs: []string{}, Topics: []string{}}
	for _, x := range s.SessionMetadatas().All() {
		x := x
		c.Sessions = append(c.Sessions, FmtSession(&x))
	}
	for _, x := range s.Subscriptions().All() {
		x := x
		c.Subs = append(c.Subs, FmtSub(&x))
	}
	msgs, err := s.Topics().Get([]byte("#"))
	if err != nil {
		c.Topics = append(c.Topics, "ERROR "+err.Error())
	}
	for _, x := range msgs {
		x := x
		c.Topics = append(c.Topics, FmtTopic(&x))
	}
	sort.Strings(c.Sessions)
	sort.Strings(c.Subs)
	sort.Strings(c.Topics)
	return c
}

// DecodeEvent parses a gossip payload.
func DecodeEvent(b []byte) (*api.StateBroadcastEvent, error) {
	ev := &api.StateBroadcastEvent{}
	return ev, proto.Unmarshal(b, ev)
}

func EncodeEvent(ev *api.StateBroadcastEvent) []byte {
	b, err := proto.Marshal(ev)
	if err != nil {
		panic(err)
	}
	return b
}

// flakyRecorder is an audit sink whose RecordEvent fails whenever *fail is set.
// The audit event-kind type is unexported; the type parameter is inferred from
// the method value of the stock recorder.
type flakyRecorder[E any] struct {
	fail *atomic.Bool
	n    *atomic.Int64
}

func (f flakyRecorder[E]) RecordEvent(tenant string, kind E, payload map[string]string) error {
	f.n.Add(1)
	if f.fail.Load() {
		return errors.New("injected audit sink failure")
	}
	return nil
}
func (f flakyRecorder[E]) Consume(ctx context.Context, consumer func(timestamp int64, tenant, service, eventKind string, payload map[string]string)) error {
	<-ctx.Done()
	return nil
}

func mkFlaky[E any](_ func(string, E, map[string]string) error, fail *atomic.Bool, n *atomic.Int64) flakyRecorder[E] {
	return flakyRecorder[E]{fail: fail, n: n}
}

// NewReplicaFlakyAudit is NewReplica with an audit sink that fails while *fail is set;
// events counts the RecordEvent calls.
func NewReplicaFlakyAudit(id uint64, fail *atomic.Bool, events *atomic.Int64) *Replica {
	q := NewQueue()
	var rec audit.Recorder = mkFlaky(audit.NoneRecorder().RecordEvent, fail, events)
	return &Replica{ID: id, Q: q, S: distributed.NewState(id, q, rec)}
}
