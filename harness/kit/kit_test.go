package kit

import (
	"testing"
	"time"
)

func TestSmoke(t *testing.T) {
	cl := NewCluster(t.TempDir())
	defer cl.Close()
	n, err := cl.AddNode(NodeOpts{ID: 1})
	if err != nil {
		t.Fatal(err)
	}
	sub, err := n.MustConnect(ConnectOpts{ClientID: "sub", KeepAlive: 30, Clean: true})
	if err != nil {
		t.Fatal(err)
	}
	if err := sub.Sub1("a/#", 1); err != nil {
		t.Fatal(err)
	}
	pub, err := n.MustConnect(ConnectOpts{ClientID: "pub", KeepAlive: 30, Clean: true})
	if err != nil {
		t.Fatal(err)
	}
	for i := 0; i < 3; i++ {
		acked, err := pub.Publish("a/b", []byte{byte('0' + i)}, 1, false, 5*time.Second)
		t.Log("acked", acked, err)
	}
	acked, err := pub.Publish("a", []byte("q2"), 2, false, 5*time.Second)
	t.Log("q2 acked", acked, err)
	time.Sleep(500 * time.Millisecond)
	for _, p := range sub.Publishes() {
		t.Log(p)
	}
	ok, err := sub.Ping(2 * time.Second)
	t.Log("ping", ok, err)
}
