package kit

import (
	"context"
	"errors"
	"fmt"
	"net"
	"os"
	"path/filepath"
	"sync"
	"sync/atomic"
	"time"

	"github.com/hashicorp/memberlist"
	"github.com/vx-labs/cluster/membership"
	"github.com/vx-labs/commitlog/stream"
	"github.com/vx-labs/mqtt-protocol/packet"
	"github.com/vx-labs/wasp/v4/wasp"
	"github.com/vx-labs/wasp/v4/wasp/ack"
	"github.com/vx-labs/wasp/v4/wasp/audit"
	"github.com/vx-labs/wasp/v4/wasp/auth"
	"github.com/vx-labs/wasp/v4/wasp/distributed"
	"github.com/vx-labs/wasp/v4/wasp/messages"
	"github.com/vx-labs/wasp/v4/wasp/transport"
	"go.uber.org/zap"
	"google.golang.org/grpc"
	"google.golang.org/grpc/test/bufconn"
)

// ---- message log wrapper ---------------------------------------------------------

// AppendRecord is one Append call observed at the log boundary.
type AppendRecord struct {
	SeqCall, SeqRet int64
	Node            uint64
	Topic           string
	Payload         []byte
	Err             error
}

// RecLog wraps the real messages.Log: it records every Append and can fail or
// gate them.
type RecLog struct {
	messages.Log
	node uint64

	mu      sync.Mutex
	records []AppendRecord
	// FailIf, if set, decides per Append whether to fail instead of writing.
	FailIf func(p *packet.Publish, nth int) error
	// Gate, if non-nil, is received from before each Append proceeds.
	gate  chan struct{}
	calls int
}

func (l *RecLog) Append(p *packet.Publish) error {
	call := Seq()
	l.mu.Lock()
	l.calls++
	nth := l.calls
	fail := l.FailIf
	gate := l.gate
	l.mu.Unlock()
	if gate != nil {
		<-gate
	}
	var err error
	if fail != nil {
		err = fail(p, nth)
	}
	if err == nil {
		err = l.Log.Append(p)
	}
	rec := AppendRecord{SeqCall: call, SeqRet: Seq(), Node: l.node, Topic: string(p.Topic), Payload: append([]byte{}, p.Payload...), Err: err}
	l.mu.Lock()
	l.records = append(l.records, rec)
	l.mu.Unlock()
	return err
}

// Calls returns the number of Append calls started so far (returned or not).
func (l *RecLog) Calls() int {
	l.mu.Lock()
	defer l.mu.Unlock()
	return l.calls
}

func (l *RecLog) Records() []AppendRecord {
	l.mu.Lock()
	defer l.mu.Unlock()
	return append([]AppendRecord{}, l.records...)
}

func (l *RecLog) SetFail(f func(p *packet.Publish, nth int) error) {
	l.mu.Lock()
	l.FailIf = f
	l.mu.Unlock()
}

// CloseGate makes every Append block until OpenGate.
func (l *RecLog) CloseGate() {
	l.mu.Lock()
	l.gate = make(chan struct{})
	l.mu.Unlock()
}
func (l *RecLog) OpenGate() {
	l.mu.Lock()
	if l.gate != nil {
		close(l.gate)
		l.gate = nil
	}
	l.mu.Unlock()
}

// Stream must be forwarded explicitly (embedded interface does it, kept for clarity).
func (l *RecLog) Stream(ctx context.Context, consumer stream.Consumer, f func(*packet.Publish) error) error {
	return l.Log.Stream(ctx, consumer, f)
}

// ---- taps ----------------------------------------------------------------------------

type noTaps struct{}

func (noTaps) Run(ctx context.Context)                                 { <-ctx.Done() }
func (noTaps) Dispatch(context.Context, string, *packet.Publish) error { return nil }

// ---- authentication ------------------------------------------------------------------

// AuthFunc adapts a function to wasp.AuthenticationHandler.
type AuthFunc func(ctx context.Context, mqtt auth.ApplicationContext, t auth.TransportContext) (auth.Principal, error)

func (f AuthFunc) Authenticate(ctx context.Context, mqtt auth.ApplicationContext, t auth.TransportContext) (auth.Principal, error) {
	return f(ctx, mqtt, t)
}

var sessCounter int64

// FreshID returns a fresh session id.
func FreshID() string { return fmt.Sprintf("sess-%06d", atomic.AddInt64(&sessCounter, 1)) }

// OpenAuth admits everybody into the default mount point with a fresh id.
func OpenAuth() AuthFunc {
	return func(ctx context.Context, m auth.ApplicationContext, t auth.TransportContext) (auth.Principal, error) {
		return auth.Principal{ID: FreshID(), MountPoint: auth.DefaultMountPoint}, nil
	}
}

// TenantAuth maps the user name to the mount point ("" -> default).
func TenantAuth() AuthFunc {
	return func(ctx context.Context, m auth.ApplicationContext, t auth.TransportContext) (auth.Principal, error) {
		mp := string(m.Username)
		if mp == "" {
			mp = auth.DefaultMountPoint
		}
		return auth.Principal{ID: FreshID(), MountPoint: mp}, nil
	}
}

// ---- cluster ---------------------------------------------------------------------------

type Cluster struct {
	mu          sync.Mutex
	Nodes       map[uint64]*Node
	order       []uint64
	unreachable map[uint64]bool
	dead        map[uint64]bool
	baseDir     string
	pumpStop    chan struct{}
	pumpDone    chan struct{}
	// RPC call log
	rpcMu    sync.Mutex
	RPCCalls []RPCRecord
	// gossip log: every payload handed out, in order
	GossipSent int64
	// gossip withheld from a node (HoldGossipFor), in arrival order
	held        map[uint64][][]byte
	holdIf      map[uint64]func([]byte) bool
	unreachKind int64
	// replies still to be lost per callee (LoseReplies)
	loseReply map[uint64]int
	dead0     *grpc.ClientConn
	// every gossip payload the pump has handed out, in order
	gossipLog [][]byte
}

type RPCRecord struct {
	SeqCall, SeqRet int64
	From, To        uint64
	Err             error
}

type NodeOpts struct {
	ID      uint64
	Auth    wasp.AuthenticationHandler
	PoolMin int32
	PoolMax int32  // 0 = production range
	Dir     string // existing data dir (restart); "" = fresh
	// AuditFail, when set, gives the node an audit sink that fails while *AuditFail is true
	AuditFail *atomic.Bool
}

type Node struct {
	AuditEvents atomic.Int64 // events offered to the flaky audit sink (NodeOpts.AuditFail)
	ID          uint64
	C           *Cluster
	Dir         string
	Local       wasp.LocalState
	State       distributed.State
	Bcast       *memberlist.TransmitLimitedQueue
	Log         *RecLog
	Ack         ack.Queue
	Writer      wasp.Writer
	Dist        *wasp.PublishDistributor
	PP          wasp.PacketProcessor
	Manager     wasp.Manager
	Members     wasp.NodeMemberManager

	ctx    context.Context
	cancel context.CancelFunc
	wg     sync.WaitGroup
	// the log consumer has its own context and is stopped first (see Stop)
	consumerCancel context.CancelFunc
	consumerDone   chan struct{}
	clientsMu      sync.Mutex
	clients        []*Client
	grpcSrv        *grpc.Server
	lis            *bufconn.Listener
	connMu         sync.Mutex
	conns          map[uint64]*grpc.ClientConn
	stopped        bool
}

func NewCluster(baseDir string) *Cluster {
	os.MkdirAll(baseDir, 0755)
	return &Cluster{Nodes: map[uint64]*Node{}, unreachable: map[uint64]bool{}, dead: map[uint64]bool{}, baseDir: baseDir}
}

type nodeTransport struct {
	c    *Cluster
	from *Node
}

// Call is what cluster.MultiNode.Call does: hand f a client connection to the peer.
func (t nodeTransport) Call(id uint64, f func(*grpc.ClientConn) error) error {
	rec := RPCRecord{SeqCall: Seq(), From: t.from.ID, To: id}
	err := t.call(id, f)
	rec.SeqRet = Seq()
	rec.Err = err
	t.c.rpcMu.Lock()
	t.c.RPCCalls = append(t.c.RPCCalls, rec)
	t.c.rpcMu.Unlock()
	return err
}

func (t nodeTransport) call(id uint64, f func(*grpc.ClientConn) error) error {
	t.c.mu.Lock()
	peer := t.c.Nodes[id]
	bad := t.c.unreachable[id] || t.c.dead[id] || peer == nil
	t.c.mu.Unlock()
	if bad {
		// the errors the real cluster pool (cluster/membership) returns for a peer it cannot call,
		// plus a plain transport error; the kind rotates so that every kind is exercised
		switch atomic.AddInt64(&t.c.unreachKind, 1) % 4 {
		case 0:
			return membership.ErrPeerNotFound
		case 1:
			return membership.ErrPeerDisabled
		case 2:
			return errors.New("peer unreachable (injected)")
		default:
			// the pool still hands out a connection, but nobody listens behind it any more: the call itself
			// has to fail (it does at once, unless it was told to wait for the peer to come back)
			return f(t.c.deadConn())
		}
	}
	t.from.connMu.Lock()
	conn := t.from.conns[id]
	if conn == nil {
		var err error
		conn, err = grpc.DialContext(context.Background(), "bufnet",
			grpc.WithContextDialer(func(ctx context.Context, _ string) (net.Conn, error) { return peer.lis.Dial() }),
			grpc.WithInsecure())
		if err != nil {
			t.from.connMu.Unlock()
			return err
		}
		t.from.conns[id] = conn
	}
	t.from.connMu.Unlock()
	err := f(conn)
	if err == nil {
		t.c.mu.Lock()
		lose := t.c.loseReply[id] > 0
		if lose {
			t.c.loseReply[id]--
		}
		t.c.mu.Unlock()
		if lose {
			// the peer executed the request; its answer never arrives
			return errors.New("rpc error: code = Unavailable desc = transport is closing (reply lost, injected)")
		}
	}
	return err
}

// AddNode assembles a node exactly as cmd/wasp/main.go does and starts it.
func (c *Cluster) AddNode(o NodeOpts) (*Node, error) {
	if o.Auth == nil {
		o.Auth = OpenAuth()
	}
	n := &Node{ID: o.ID, C: c, conns: map[uint64]*grpc.ClientConn{}}
	n.Dir = o.Dir
	if n.Dir == "" {
		n.Dir = filepath.Join(c.baseDir, fmt.Sprintf("node-%d-%d", o.ID, Seq()))
	}
	if err := os.MkdirAll(n.Dir, 0755); err != nil {
		return nil, err
	}
	ctx, cancel := context.WithCancel(context.Background())
	ctx = wasp.StoreLogger(ctx, zap.NewNop())
	n.ctx, n.cancel = ctx, cancel

	real, err := messages.New(filepath.Join(n.Dir, "published-messages"))
	if err != nil {
		cancel()
		return nil, err
	}
	n.Log = &RecLog{Log: real, node: o.ID}
	n.Bcast = NewQueue()
	n.Local = wasp.NewState(o.ID)
	var recorder audit.Recorder = audit.NoneRecorder()
	if o.AuditFail != nil {
		recorder = mkFlaky(audit.NoneRecorder().RecordEvent, o.AuditFail, &n.AuditEvents)
	}
	n.State = distributed.NewState(o.ID, n.Bcast, recorder)
	n.Dist = &wasp.PublishDistributor{ID: o.ID, State: n.State.Subscriptions(), Storage: n.Log, Logger: zap.NewNop()}
	n.Dist.Transport = nodeTransport{c: c, from: n}
	n.Members = wasp.NewNodeMemberManager(o.ID, n.Log, n.State)

	n.lis = bufconn.Listen(1 << 20)
	n.grpcSrv = grpc.NewServer()
	wasp.NewMQTTServer(n.State, n.Local, n.Log, n.Dist, nil).Serve(n.grpcSrv)
	go n.grpcSrv.Serve(n.lis)

	n.Ack = ack.NewQueue()
	writer := wasp.NewWriter(o.ID, n.State.Subscriptions(), n.Local, n.Ack)
	n.Writer = writer
	if o.PoolMax != 0 {
		wasp.VerifSetWriterPool(writer, o.PoolMin, o.PoolMax)
	}
	cctx, ccancel := context.WithCancel(ctx)
	n.consumerCancel = ccancel
	n.consumerDone = make(chan struct{})
	consume := wasp.SchedulePublishes(o.ID, writer, n.Log)
	n.wg.Add(1)
	go func() {
		defer n.wg.Done()
		defer close(n.consumerDone)
		consume(cctx)
	}()
	n.run(func(ctx context.Context) { writer.Run(ctx, n.Log) })
	taps := noTaps{}
	n.PP = wasp.NewPacketProcessor(n.Local, n.State, writer, taps, n.Dist, n.Ack)
	n.run(n.PP.Run)
	n.Manager = wasp.NewConnectionManager(o.Auth, n.Local, n.State, writer, n.PP, n.Ack)
	n.run(n.Manager.Run)

	c.mu.Lock()
	c.Nodes[o.ID] = n
	c.order = append(c.order, o.ID)
	delete(c.dead, o.ID)
	c.mu.Unlock()
	return n, nil
}

func (n *Node) run(f func(ctx context.Context)) {
	n.wg.Add(1)
	go func() {
		defer n.wg.Done()
		f(n.ctx)
	}()
}

// Dial attaches a new client connection to the node.
func (n *Node) Dial(name string) *Client {
	a, b := net.Pipe()
	go n.Manager.Setup(n.ctx, transport.Metadata{Name: "tcp", Channel: b, RemoteAddress: name})
	c := NewClient(name, a)
	n.track(c)
	return c
}

func (n *Node) track(c *Client) {
	n.clientsMu.Lock()
	n.clients = append(n.clients, c)
	n.clientsMu.Unlock()
}

// Connect dials and performs CONNECT.
func (n *Node) Connect(o ConnectOpts) (*Client, int, error) {
	c := n.Dial(o.ClientID)
	code, err := c.Connect(o)
	return c, code, err
}

// MustConnect connects with an accepted CONNACK or returns an error.
func (n *Node) MustConnect(o ConnectOpts) (*Client, error) {
	c, code, err := n.Connect(o)
	if err != nil {
		return c, err
	}
	if code != 0 {
		return c, fmt.Errorf("CONNACK code %d", code)
	}
	return c, nil
}

// Stop ends the node's goroutines and closes its log. With keep the data
// directory is left in place for a restart.
func (n *Node) Stop(keep bool) { n.stop(keep, false) }

// stop ends the node. abrupt = the node "dies": its connections are not closed first (their
// sessions must not run an orderly teardown, wills included).
func (n *Node) stop(keep, abrupt bool) {
	n.C.mu.Lock()
	if n.stopped {
		n.C.mu.Unlock()
		return
	}
	n.stopped = true
	delete(n.C.Nodes, n.ID)
	n.C.mu.Unlock()
	// Orderly stop. wasp's writer closes its queue when its context ends, and a concurrent
	// Schedule/Send on that queue panics ("send on closed channel"): that is broker shutdown, which
	// no property covers, so the harness avoids the race instead of reporting it: connections of
	// this node go away first (as they would with the process), then the log consumer is stopped
	// and waited for, and only then is everything else cancelled.
	if !abrupt {
		n.clientsMu.Lock()
		for _, c := range n.clients {
			c.Close()
		}
		n.clientsMu.Unlock()
		deadline := time.Now().Add(2 * time.Second)
		for len(n.Local.ListSessions()) > 0 && time.Now().Before(deadline) {
			time.Sleep(2 * time.Millisecond)
		}
	}
	n.consumerCancel()
	select {
	case <-n.consumerDone:
	case <-time.After(5 * time.Second):
	}
	n.cancel()
	done := make(chan struct{})
	go func() { n.wg.Wait(); close(done) }()
	select {
	case <-done:
	case <-time.After(10 * time.Second):
	}
	n.grpcSrv.Stop()
	n.connMu.Lock()
	for _, cc := range n.conns {
		cc.Close()
	}
	n.connMu.Unlock()
	n.Log.Log.Close()
	if !keep {
		os.RemoveAll(n.Dir)
	}
}

func (c *Cluster) nodesSnapshot() []*Node {
	c.mu.Lock()
	defer c.mu.Unlock()
	out := []*Node{}
	for _, id := range c.order {
		if n := c.Nodes[id]; n != nil {
			out = append(out, n)
		}
	}
	return out
}

// deadConn returns a client connection whose every dial attempt is refused.
func (c *Cluster) deadConn() *grpc.ClientConn {
	c.mu.Lock()
	defer c.mu.Unlock()
	if c.dead0 == nil {
		c.dead0, _ = grpc.DialContext(context.Background(), "dead-peer",
			grpc.WithContextDialer(func(ctx context.Context, _ string) (net.Conn, error) {
				return nil, errors.New("connect: connection refused (injected)")
			}), grpc.WithInsecure())
	}
	return c.dead0
}

// LoseReplies makes the next n successful calls to node id fail at the caller after the
// callee has executed them (the reply is lost).
func (c *Cluster) LoseReplies(id uint64, n int) {
	c.mu.Lock()
	if c.loseReply == nil {
		c.loseReply = map[uint64]int{}
	}
	c.loseReply[id] = n
	c.mu.Unlock()
}

// CancelContext cancels the node's context (what a shutdown signal does first) while the
// clients' connections stay open.
func (n *Node) CancelContext() { n.cancel() }

func (c *Cluster) SetUnreachable(id uint64, v bool) {
	c.mu.Lock()
	c.unreachable[id] = v
	c.mu.Unlock()
}

// PumpOnce drains every node's queue once and delivers each payload to every
// other live node. It returns the number of payloads delivered.
func (c *Cluster) PumpOnce() int {
	nodes := c.nodesSnapshot()
	total := 0
	for _, n := range nodes {
		bs := n.Bcast.GetBroadcasts(0, 1<<30)
		for _, b := range bs {
			c.mu.Lock()
			c.gossipLog = append(c.gossipLog, b)
			c.mu.Unlock()
			for _, m := range nodes {
				if m != n {
					c.mu.Lock()
					_, holding := c.held[m.ID]
					if holding && c.holdIf != nil && c.holdIf[m.ID] != nil && !c.holdIf[m.ID](b) {
						holding = false // a selective hold that lets this payload through
					}
					if holding {
						c.held[m.ID] = append(c.held[m.ID], b)
					}
					c.mu.Unlock()
					if !holding {
						m.State.Distributor().NotifyMsg(b)
					}
				}
			}
			total++
		}
	}
	atomic.AddInt64(&c.GossipSent, int64(total))
	return total
}

// RedeliverAllGossip delivers every payload the pump has ever handed out once more, in the
// original order, to every live node (late retransmissions: delivery "any number of times").
func (c *Cluster) RedeliverAllGossip() int {
	return c.RedeliverGossip(func(msg int, node uint64) bool { return true })
}

// RedeliverGossip re-delivers, in the original order, the payloads for which pick(index, node) is
// true: late retransmissions of SOME messages to SOME nodes.
func (c *Cluster) RedeliverGossip(pick func(msg int, node uint64) bool) int {
	c.mu.Lock()
	log := append([][]byte{}, c.gossipLog...)
	c.mu.Unlock()
	n := 0
	for i, b := range log {
		for _, m := range c.nodesSnapshot() {
			if pick(i, m.ID) {
				m.State.Distributor().NotifyMsg(b)
				n++
			}
		}
	}
	return n
}

// FailNodeStaggered is FailNode with the survivors learning of the failure one after the other:
// after each notification the gossip it causes is delivered and gap is waited.
func (c *Cluster) FailNodeStaggered(n *Node, gap time.Duration) {
	c.mu.Lock()
	c.dead[n.ID] = true
	c.mu.Unlock()
	n.stop(false, true)
	for _, m := range c.nodesSnapshot() {
		m.Members.NotifyGossipLeave(n.ID)
		time.Sleep(gap)
		c.Quiesce()
	}
}

// HoldGossipFor makes the pump keep (not deliver) everything destined to node id.
func (c *Cluster) HoldGossipFor(id uint64) {
	c.mu.Lock()
	if c.held == nil {
		c.held = map[uint64][][]byte{}
	}
	if _, ok := c.held[id]; !ok {
		c.held[id] = [][]byte{}
	}
	c.mu.Unlock()
}

// HoldGossipIf is HoldGossipFor restricted to the payloads for which pred is true (gossip in which
// some messages are slower than others); the rest is delivered as usual.
func (c *Cluster) HoldGossipIf(id uint64, pred func(payload []byte) bool) {
	c.HoldGossipFor(id)
	c.mu.Lock()
	if c.holdIf == nil {
		c.holdIf = map[uint64]func([]byte) bool{}
	}
	c.holdIf[id] = pred
	c.mu.Unlock()
}

// ReleaseGossip delivers what was withheld from node id, oldest first, and ends the hold.
func (c *Cluster) ReleaseGossip(id uint64) int {
	c.mu.Lock()
	bs := c.held[id]
	delete(c.held, id)
	if c.holdIf != nil {
		delete(c.holdIf, id)
	}
	n := c.Nodes[id]
	c.mu.Unlock()
	if n == nil {
		return 0
	}
	for _, b := range bs {
		n.State.Distributor().NotifyMsg(b)
	}
	return len(bs)
}

// ReleaseGossipReversed delivers what was withheld from node id, newest first.
func (c *Cluster) ReleaseGossipReversed(id uint64) int {
	c.mu.Lock()
	bs := c.held[id]
	delete(c.held, id)
	n := c.Nodes[id]
	c.mu.Unlock()
	if n == nil {
		return 0
	}
	for i := len(bs) - 1; i >= 0; i-- {
		n.State.Distributor().NotifyMsg(bs[i])
	}
	return len(bs)
}

// Quiesce pumps until every queue is empty (the gossip barrier).
func (c *Cluster) Quiesce() int {
	total := 0
	for i := 0; i < 10000; i++ {
		n := c.PumpOnce()
		total += n
		if n == 0 {
			return total
		}
	}
	return total
}

// StartPump pumps continuously in the background (every interval).
func (c *Cluster) StartPump(interval time.Duration) {
	c.mu.Lock()
	if c.pumpStop != nil {
		c.mu.Unlock()
		return
	}
	c.pumpStop = make(chan struct{})
	c.pumpDone = make(chan struct{})
	stop, done := c.pumpStop, c.pumpDone
	c.mu.Unlock()
	go func() {
		defer close(done)
		t := time.NewTicker(interval)
		defer t.Stop()
		for {
			select {
			case <-stop:
				return
			case <-t.C:
				c.PumpOnce()
			}
		}
	}()
}

func (c *Cluster) StopPump() {
	c.mu.Lock()
	stop, done := c.pumpStop, c.pumpDone
	c.pumpStop, c.pumpDone = nil, nil
	c.mu.Unlock()
	if stop != nil {
		close(stop)
		<-done
	}
}

// PushPull performs a full-state exchange from -> to.
func (c *Cluster) PushPull(from, to *Node) {
	to.State.Distributor().MergeRemoteState(from.State.Distributor().LocalState(false), false)
}

// FailNode simulates the failure of a node: it is stopped, and every surviving
// node is notified the way cluster/membership does.
func (c *Cluster) FailNode(n *Node) {
	c.mu.Lock()
	c.dead[n.ID] = true
	c.mu.Unlock()
	n.stop(false, true)
	for _, m := range c.nodesSnapshot() {
		m.Members.NotifyGossipLeave(n.ID)
	}
}

// Close stops everything and removes the data directories.
func (c *Cluster) Close() {
	c.StopPump()
	for _, n := range c.nodesSnapshot() {
		n.Stop(false)
	}
	os.RemoveAll(c.baseDir)
}

func (c *Cluster) RPCLog() []RPCRecord {
	c.rpcMu.Lock()
	defer c.rpcMu.Unlock()
	return append([]RPCRecord{}, c.RPCCalls...)
}

// WorkDir returns a scratch directory under the run's work directory.
func WorkDir(name string) string {
	base := os.Getenv("VERIF_WORK")
	if base == "" {
		base = filepath.Join(os.TempDir(), fmt.Sprintf("wv-%d", os.Getpid()))
	}
	d := filepath.Join(base, fmt.Sprintf("%s-%d", name, Seq()))
	os.MkdirAll(d, 0755)
	return d
}
