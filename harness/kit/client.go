package kit

import (
	"errors"
	"fmt"
	"net"
	"sync"
	"sync/atomic"
	"time"
)

var globalSeq int64

// Seq returns the next value of the harness-wide sequence counter used to
// order events recorded at different boundaries (client pipes, log wrapper,
// RPC wrapper).
func Seq() int64 { return atomic.AddInt64(&globalSeq, 1) }

// Event is one packet read by a client.
type Event struct {
	Seq int64
	At  time.Time
	Pkt Pkt
}

// DefaultWait is the generous wall-clock bound used while waiting for a reply
// that the broker sends as a direct consequence of a request.
var DefaultWait = 20 * time.Second

// Client is a harness MQTT client attached to one end of a pipe.
type Client struct {
	Name string
	conn net.Conn

	mu      sync.Mutex
	cond    *sync.Cond
	events  []Event
	closed  bool
	readErr error

	wmu     sync.Mutex
	autoAck int32
	ackq    chan []byte
	nextID  int32
	done    chan struct{}

	// OnPublish, if set, is called from the reader goroutine for every
	// PUBLISH before auto-acknowledgement; returning false suppresses the
	// automatic acknowledgement of that packet.
	OnPublish func(p Pkt) bool
	// OnPubRel likewise for PUBREL.
	OnPubRel func(p Pkt) bool
}

// NewClient starts the reader and acknowledgement goroutines.
func NewClient(name string, conn net.Conn) *Client {
	c := &Client{Name: name, conn: conn, autoAck: 1, ackq: make(chan []byte, 4096), done: make(chan struct{})}
	c.cond = sync.NewCond(&c.mu)
	go c.reader()
	go c.acker()
	return c
}

func (c *Client) SetAutoAck(on bool) {
	v := int32(0)
	if on {
		v = 1
	}
	atomic.StoreInt32(&c.autoAck, v)
}

func (c *Client) reader() {
	for {
		p, err := ReadPkt(c.conn)
		if err != nil {
			c.mu.Lock()
			c.closed = true
			c.readErr = err
			c.cond.Broadcast()
			c.mu.Unlock()
			close(c.done)
			return
		}
		ack := atomic.LoadInt32(&c.autoAck) == 1
		switch p.Type {
		case PUBLISH:
			if c.OnPublish != nil && !c.OnPublish(p) {
				ack = false
			}
		case PUBREL:
			if c.OnPubRel != nil && !c.OnPubRel(p) {
				ack = false
			}
		}
		c.mu.Lock()
		c.events = append(c.events, Event{Seq: Seq(), At: time.Now(), Pkt: p})
		c.cond.Broadcast()
		c.mu.Unlock()
		if ack {
			switch {
			case p.Type == PUBLISH && p.Qos == 1:
				c.queueAck(EncPubAck(p.ID))
			case p.Type == PUBLISH && p.Qos == 2:
				c.queueAck(EncPubRec(p.ID))
			case p.Type == PUBREL:
				c.queueAck(EncPubComp(p.ID))
			}
		}
	}
}

func (c *Client) queueAck(b []byte) {
	select {
	case c.ackq <- b:
	default: // never block the reader: the broker retransmits
	}
}

func (c *Client) acker() {
	for {
		select {
		case b := <-c.ackq:
			c.Send(b)
		case <-c.done:
			return
		}
	}
}

// Send writes raw bytes with a write deadline (an abandoned session is not
// necessarily closed by the broker, so an unbounded write could block forever).
func (c *Client) Send(b []byte) error {
	c.wmu.Lock()
	defer c.wmu.Unlock()
	c.conn.SetWriteDeadline(time.Now().Add(DefaultWait))
	_, err := c.conn.Write(b)
	return err
}

// SendTimeout is Send with an explicit deadline.
func (c *Client) SendTimeout(b []byte, d time.Duration) error {
	c.wmu.Lock()
	defer c.wmu.Unlock()
	c.conn.SetWriteDeadline(time.Now().Add(d))
	_, err := c.conn.Write(b)
	return err
}

func (c *Client) Close() { c.conn.Close() }

func (c *Client) Closed() bool {
	c.mu.Lock()
	defer c.mu.Unlock()
	return c.closed
}

// WaitClosed waits until the reader saw EOF / an error.
func (c *Client) WaitClosed(d time.Duration) bool {
	select {
	case <-c.done:
		return true
	case <-time.After(d):
		return false
	}
}

func (c *Client) Events() []Event {
	c.mu.Lock()
	defer c.mu.Unlock()
	return append([]Event{}, c.events...)
}

func (c *Client) NumEvents() int {
	c.mu.Lock()
	defer c.mu.Unlock()
	return len(c.events)
}

// Publishes returns the PUBLISH packets received so far.
func (c *Client) Publishes() []Pkt {
	out := []Pkt{}
	for _, e := range c.Events() {
		if e.Pkt.Type == PUBLISH {
			out = append(out, e.Pkt)
		}
	}
	return out
}

var ErrTimeout = errors.New("timeout waiting for packet")
var ErrClosed = errors.New("connection closed")

// WaitFor waits for an event at index >= from satisfying pred. It returns the
// event and its index.
func (c *Client) WaitFor(from int, d time.Duration, pred func(Event) bool) (Event, int, error) {
	deadline := time.Now().Add(d)
	timer := time.AfterFunc(d, func() { c.mu.Lock(); c.cond.Broadcast(); c.mu.Unlock() })
	defer timer.Stop()
	c.mu.Lock()
	defer c.mu.Unlock()
	i := from
	for {
		for ; i < len(c.events); i++ {
			if pred(c.events[i]) {
				return c.events[i], i, nil
			}
		}
		if c.closed {
			return Event{}, -1, ErrClosed
		}
		if !time.Now().Before(deadline) {
			return Event{}, -1, ErrTimeout
		}
		c.cond.Wait()
	}
}

func (c *Client) NextID() int {
	for {
		v := atomic.AddInt32(&c.nextID, 1)
		if v&0xffff != 0 {
			return int(v & 0xffff)
		}
	}
}

// Connect sends CONNECT and waits for CONNACK. code is -1 when the connection
// was closed without a CONNACK.
func (c *Client) Connect(o ConnectOpts) (int, error) {
	from := c.NumEvents()
	if err := c.Send(EncConnect(o)); err != nil {
		return -1, err
	}
	ev, _, err := c.WaitFor(from, DefaultWait, func(e Event) bool { return e.Pkt.Type == CONNACK })
	if err != nil {
		return -1, err
	}
	return ev.Pkt.Code, nil
}

func (c *Client) Subscribe(filters []string, qos []int) error {
	id := c.NextID()
	from := c.NumEvents()
	if err := c.Send(EncSubscribe(id, filters, qos)); err != nil {
		return err
	}
	_, _, err := c.WaitFor(from, DefaultWait, func(e Event) bool { return e.Pkt.Type == SUBACK && e.Pkt.ID == id })
	return err
}

func (c *Client) Sub1(filter string, qos int) error {
	return c.Subscribe([]string{filter}, []int{qos})
}

func (c *Client) Unsubscribe(filters []string) error {
	id := c.NextID()
	from := c.NumEvents()
	if err := c.Send(EncUnsubscribe(id, filters)); err != nil {
		return err
	}
	_, _, err := c.WaitFor(from, DefaultWait, func(e Event) bool { return e.Pkt.Type == UNSUBACK && e.Pkt.ID == id })
	return err
}

// Ping sends PINGREQ and reports whether a PINGRESP arrived within d.
func (c *Client) Ping(d time.Duration) (bool, error) {
	from := c.NumEvents()
	if err := c.Send(EncPingReq()); err != nil {
		return false, err
	}
	_, _, err := c.WaitFor(from, d, func(e Event) bool { return e.Pkt.Type == PINGRESP })
	if err == nil {
		return true, nil
	}
	return false, err
}

// Publish sends a PUBLISH and, for QoS 1/2, runs the handshake. acked is true
// when PUBACK / PUBCOMP was read within d.
func (c *Client) Publish(topic string, payload []byte, qos int, retain bool, d time.Duration) (acked bool, err error) {
	id := 0
	if qos > 0 {
		id = c.NextID()
	}
	return c.PublishID(topic, payload, qos, retain, id, d)
}

func (c *Client) PublishID(topic string, payload []byte, qos int, retain bool, id int, d time.Duration) (acked bool, err error) {
	from := c.NumEvents()
	if err := c.Send(EncPublish(topic, payload, qos, retain, false, id)); err != nil {
		return false, err
	}
	switch qos {
	case 0:
		return false, nil
	case 1:
		_, _, err := c.WaitFor(from, d, func(e Event) bool { return e.Pkt.Type == PUBACK && e.Pkt.ID == id })
		return err == nil, err
	default:
		_, idx, err := c.WaitFor(from, d, func(e Event) bool { return e.Pkt.Type == PUBREC && e.Pkt.ID == id })
		if err != nil {
			return false, fmt.Errorf("waiting for PUBREC: %w", err)
		}
		if err := c.Send(EncPubRel(id)); err != nil {
			return false, err
		}
		_, _, err = c.WaitFor(idx, d, func(e Event) bool { return e.Pkt.Type == PUBCOMP && e.Pkt.ID == id })
		return err == nil, err
	}
}
