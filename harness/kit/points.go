package kit

import (
	"context"
	"fmt"
	"sync"

	"github.com/vx-labs/wasp/v4/wasp"
	"github.com/vx-labs/wasp/v4/wasp/auth"
)

// Verification points (hook H2): a scenario can make the code block at a named
// point for a given argument (a session id) until it releases it.

type pointKey struct{ name, arg string }

type pointGate struct {
	reached chan struct{}
	release chan struct{}
	once    sync.Once
}

var (
	pointsOnce sync.Once
	pointsMu   sync.Mutex
	points     = map[pointKey]*pointGate{}
)

func installPoints() {
	pointsOnce.Do(func() {
		wasp.VerifSetPoint(func(name string, arg interface{}) {
			k := pointKey{name, fmt.Sprint(arg)}
			pointsMu.Lock()
			g := points[k]
			pointsMu.Unlock()
			if g == nil {
				return
			}
			g.once.Do(func() { close(g.reached) })
			<-g.release
		})
	})
}

// BlockAt arms a gate: the first goroutine that reaches point name with the
// given argument blocks there. reached is closed when that happens; call
// release to let it continue (also disarms the gate).
func BlockAt(name, arg string) (reached <-chan struct{}, release func()) {
	installPoints()
	g := &pointGate{reached: make(chan struct{}), release: make(chan struct{})}
	k := pointKey{name, arg}
	pointsMu.Lock()
	points[k] = g
	pointsMu.Unlock()
	var once sync.Once
	return g.reached, func() {
		once.Do(func() {
			pointsMu.Lock()
			delete(points, k)
			pointsMu.Unlock()
			close(g.release)
		})
	}
}

// PredictableAuth admits everybody; the n-th connection of client id X gets
// the session id "X#n", so that a scenario knows session ids in advance.
// The user name, if any, selects the mount point.
func PredictableAuth() AuthFunc {
	var mu sync.Mutex
	counts := map[string]int{}
	return func(ctx context.Context, m auth.ApplicationContext, t auth.TransportContext) (auth.Principal, error) {
		mu.Lock()
		key := string(m.Username) + "/" + string(m.ClientID)
		counts[key]++
		n := counts[key]
		mu.Unlock()
		mp := string(m.Username)
		if mp == "" {
			mp = auth.DefaultMountPoint
		}
		id := fmt.Sprintf("%s#%d", m.ClientID, n)
		if string(m.Username) != "" {
			id = fmt.Sprintf("%s@%s#%d", m.ClientID, m.Username, n)
		}
		return auth.Principal{ID: id, MountPoint: mp}, nil
	}
}
