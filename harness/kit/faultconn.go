package kit

import (
	"errors"
	"net"
	"sync/atomic"
	"time"

	"github.com/vx-labs/wasp/v4/wasp/transport"
)

// FaultConn wraps the broker's end of a client connection: writes can be made
// to fail on demand while reads keep working (a connection whose outbound
// direction is broken: the session stays registered until its reader notices).
type FaultConn struct {
	net.Conn
	failWrites int32
	failNext   int32 // number of coming writes to refuse (transient fault)
	Failed     int64 // number of writes refused
}

// FailNextWrites makes the next n writes fail; later ones succeed again.
func (f *FaultConn) FailNextWrites(n int) { atomic.StoreInt32(&f.failNext, int32(n)) }

var ErrInjectedWrite = errors.New("injected write failure")

func (f *FaultConn) FailWrites(on bool) {
	v := int32(0)
	if on {
		v = 1
	}
	atomic.StoreInt32(&f.failWrites, v)
}

func (f *FaultConn) Write(b []byte) (int, error) {
	for {
		k := atomic.LoadInt32(&f.failNext)
		if k <= 0 {
			break
		}
		if atomic.CompareAndSwapInt32(&f.failNext, k, k-1) {
			atomic.AddInt64(&f.Failed, 1)
			return 0, ErrInjectedWrite
		}
	}
	if atomic.LoadInt32(&f.failWrites) == 1 {
		atomic.AddInt64(&f.Failed, 1)
		return 0, ErrInjectedWrite
	}
	return f.Conn.Write(b)
}

func (f *FaultConn) SetDeadline(t time.Time) error      { return f.Conn.SetDeadline(t) }
func (f *FaultConn) SetReadDeadline(t time.Time) error  { return f.Conn.SetReadDeadline(t) }
func (f *FaultConn) SetWriteDeadline(t time.Time) error { return f.Conn.SetWriteDeadline(t) }

// DialFaulty is Dial with a FaultConn on the broker's side.
func (n *Node) DialFaulty(name string) (*Client, *FaultConn) {
	a, b := net.Pipe()
	fc := &FaultConn{Conn: b}
	go n.Manager.Setup(n.ctx, transport.Metadata{Name: "tcp", Channel: fc, RemoteAddress: name})
	c := NewClient(name, a)
	n.track(c)
	return c, fc
}
