package kit

import (
	"encoding/binary"
	"errors"
	"fmt"
	"io"
)

// A minimal MQTT 3.1.1 wire codec for the harness's clients, written from the
// specification so that the oracle shares no parsing code with mqtt-protocol.

const (
	CONNECT     = 1
	CONNACK     = 2
	PUBLISH     = 3
	PUBACK      = 4
	PUBREC      = 5
	PUBREL      = 6
	PUBCOMP     = 7
	SUBSCRIBE   = 8
	SUBACK      = 9
	UNSUBSCRIBE = 10
	UNSUBACK    = 11
	PINGREQ     = 12
	PINGRESP    = 13
	DISCONNECT  = 14
)

var typeNames = []string{"RESERVED0", "CONNECT", "CONNACK", "PUBLISH", "PUBACK", "PUBREC", "PUBREL", "PUBCOMP", "SUBSCRIBE", "SUBACK", "UNSUBSCRIBE", "UNSUBACK", "PINGREQ", "PINGRESP", "DISCONNECT", "RESERVED15"}

func TypeName(t int) string {
	if t >= 0 && t < len(typeNames) {
		return typeNames[t]
	}
	return fmt.Sprintf("TYPE%d", t)
}

// Pkt is a decoded control packet as seen by a client.
type Pkt struct {
	Type    int
	Flags   byte
	Dup     bool
	Qos     int
	Retain  bool
	ID      int
	Topic   string
	Payload []byte
	Code    int   // CONNACK return code
	Codes   []int // SUBACK return codes
	Raw     []byte
}

func (p Pkt) String() string {
	switch p.Type {
	case PUBLISH:
		return fmt.Sprintf("PUBLISH(id=%d q%d dup=%v ret=%v %s=%q)", p.ID, p.Qos, p.Dup, p.Retain, p.Topic, short(p.Payload))
	case CONNACK:
		return fmt.Sprintf("CONNACK(%d)", p.Code)
	case SUBACK:
		return fmt.Sprintf("SUBACK(id=%d %v)", p.ID, p.Codes)
	case PUBACK, PUBREC, PUBREL, PUBCOMP, UNSUBACK:
		return fmt.Sprintf("%s(id=%d)", TypeName(p.Type), p.ID)
	default:
		return TypeName(p.Type)
	}
}

func short(b []byte) string {
	if len(b) > 40 {
		return string(b[:40]) + "..."
	}
	return string(b)
}

func encRemLen(n int) []byte {
	var out []byte
	for {
		b := byte(n % 128)
		n /= 128
		if n > 0 {
			b |= 0x80
		}
		out = append(out, b)
		if n == 0 {
			return out
		}
	}
}

func lp(s []byte) []byte {
	out := make([]byte, 2+len(s))
	binary.BigEndian.PutUint16(out, uint16(len(s)))
	copy(out[2:], s)
	return out
}

func frame(typ int, flags byte, body []byte) []byte {
	out := []byte{byte(typ<<4) | flags&0x0f}
	out = append(out, encRemLen(len(body))...)
	return append(out, body...)
}

// ConnectOpts describes a CONNECT packet.
type ConnectOpts struct {
	ClientID    string
	KeepAlive   int // seconds; 0 is mapped to 30 s by the broker's decoder
	Clean       bool
	Will        bool
	WillTopic   string
	WillPayload []byte
	WillQos     int
	WillRetain  bool
	User, Pass  string
	HasUser     bool
	HasPass     bool
	ProtoName   string // default "MQTT"
	ProtoLevel  int    // default 4
}

func EncConnect(o ConnectOpts) []byte {
	name := o.ProtoName
	if name == "" {
		name = "MQTT"
	}
	level := o.ProtoLevel
	if level == 0 {
		level = 4
	}
	body := lp([]byte(name))
	body = append(body, byte(level))
	var fl byte
	if o.Clean {
		fl |= 0x02
	}
	if o.Will {
		fl |= 0x04 | byte(o.WillQos&3)<<3
		if o.WillRetain {
			fl |= 0x20
		}
	}
	if o.HasUser || o.User != "" {
		fl |= 0x80
	}
	if o.HasPass || o.Pass != "" {
		fl |= 0x40
	}
	body = append(body, fl)
	ka := make([]byte, 2)
	binary.BigEndian.PutUint16(ka, uint16(o.KeepAlive))
	body = append(body, ka...)
	body = append(body, lp([]byte(o.ClientID))...)
	if o.Will {
		body = append(body, lp([]byte(o.WillTopic))...)
		body = append(body, lp(o.WillPayload)...)
	}
	if fl&0x80 != 0 {
		body = append(body, lp([]byte(o.User))...)
	}
	if fl&0x40 != 0 {
		body = append(body, lp([]byte(o.Pass))...)
	}
	return frame(CONNECT, 0, body)
}

func EncPublish(topic string, payload []byte, qos int, retain, dup bool, id int) []byte {
	var fl byte
	if dup {
		fl |= 8
	}
	fl |= byte(qos&3) << 1
	if retain {
		fl |= 1
	}
	body := lp([]byte(topic))
	if qos > 0 {
		b := make([]byte, 2)
		binary.BigEndian.PutUint16(b, uint16(id))
		body = append(body, b...)
	}
	body = append(body, payload...)
	return frame(PUBLISH, fl, body)
}

func encID(typ int, flags byte, id int) []byte {
	b := make([]byte, 2)
	binary.BigEndian.PutUint16(b, uint16(id))
	return frame(typ, flags, b)
}

func EncPubAck(id int) []byte  { return encID(PUBACK, 0, id) }
func EncPubRec(id int) []byte  { return encID(PUBREC, 0, id) }
func EncPubRel(id int) []byte  { return encID(PUBREL, 2, id) }
func EncPubComp(id int) []byte { return encID(PUBCOMP, 0, id) }
func EncPingReq() []byte       { return frame(PINGREQ, 0, nil) }
func EncDisconnect() []byte    { return frame(DISCONNECT, 0, nil) }

func EncSubscribe(id int, filters []string, qos []int) []byte {
	body := make([]byte, 2)
	binary.BigEndian.PutUint16(body, uint16(id))
	for i, f := range filters {
		body = append(body, lp([]byte(f))...)
		body = append(body, byte(qos[i]))
	}
	return frame(SUBSCRIBE, 2, body)
}

func EncUnsubscribe(id int, filters []string) []byte {
	body := make([]byte, 2)
	binary.BigEndian.PutUint16(body, uint16(id))
	for _, f := range filters {
		body = append(body, lp([]byte(f))...)
	}
	return frame(UNSUBSCRIBE, 2, body)
}

var ErrMalformed = errors.New("malformed packet from broker")

// ReadPkt reads one control packet.
func ReadPkt(r io.Reader) (Pkt, error) {
	var h [1]byte
	if _, err := io.ReadFull(r, h[:]); err != nil {
		return Pkt{}, err
	}
	raw := []byte{h[0]}
	n, mult := 0, 1
	for i := 0; ; i++ {
		var b [1]byte
		if _, err := io.ReadFull(r, b[:]); err != nil {
			return Pkt{}, err
		}
		raw = append(raw, b[0])
		n += int(b[0]&0x7f) * mult
		mult *= 128
		if b[0]&0x80 == 0 {
			break
		}
		if i == 3 {
			return Pkt{}, ErrMalformed
		}
	}
	body := make([]byte, n)
	if _, err := io.ReadFull(r, body); err != nil {
		return Pkt{}, err
	}
	raw = append(raw, body...)
	p := Pkt{Type: int(h[0] >> 4), Flags: h[0] & 0x0f, Raw: raw}
	switch p.Type {
	case PUBLISH:
		p.Dup = h[0]&8 != 0
		p.Qos = int(h[0]>>1) & 3
		p.Retain = h[0]&1 != 0
		if len(body) < 2 {
			return p, ErrMalformed
		}
		tl := int(binary.BigEndian.Uint16(body))
		if len(body) < 2+tl {
			return p, ErrMalformed
		}
		p.Topic = string(body[2 : 2+tl])
		rest := body[2+tl:]
		if p.Qos > 0 {
			if len(rest) < 2 {
				return p, ErrMalformed
			}
			p.ID = int(binary.BigEndian.Uint16(rest))
			rest = rest[2:]
		}
		p.Payload = rest
	case CONNACK:
		if len(body) != 2 {
			return p, ErrMalformed
		}
		p.Code = int(body[1])
	case PUBACK, PUBREC, PUBREL, PUBCOMP, UNSUBACK:
		if len(body) != 2 {
			return p, ErrMalformed
		}
		p.ID = int(binary.BigEndian.Uint16(body))
	case SUBACK:
		if len(body) < 2 {
			return p, ErrMalformed
		}
		p.ID = int(binary.BigEndian.Uint16(body))
		for _, b := range body[2:] {
			p.Codes = append(p.Codes, int(b))
		}
	case PINGRESP:
	default:
	}
	return p, nil
}
