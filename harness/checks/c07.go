package checks

import (
	"fmt"
	"os"
	"runtime"
	"sort"
	"strings"
	"sync"
	"time"

	"github.com/vx-labs/mqtt-protocol/packet"
	"github.com/vx-labs/wasp/v4/wasp/distributed"

	"wv/fw"
	"wv/kit"
	"wv/model"
)

// C07 — retained: the last non-empty publish per topic is replayed to new subscribers.

func init() {
	fw.Register("C07", fw.Spec{Run: runC07})
}

func runC07(c *fw.Ctx) {
	c.Rule = "(1) store level: seeded Set/Delete histories over prefix-sharing topics (all topics of <=3 levels over {a,b,''} under a mount point) on the real replicated retained store, then Get(filter) for EVERY valid filter of <=4 levels over {a,b,c,+,#,''} compared with the model map filtered by the MQTT matcher; plus retained writes alternating between two nodes whose clocks differ by 7 s, each delivered to the other before the next write; (2) end to end: histories of <=12 retained publishes / clears / subscribes over 5 prefix-sharing topics on a broker node (and subscribes on a second node after the gossip barrier): each new subscription must receive, between its SUBACK and the barrier (own PINGRESP, then a sentinel), exactly one retain-flagged copy per model topic matched by its filter with the latest payload, nothing for cleared topics; a standing subscriber must see the live copies unflagged; a second standing subscriber re-sends SUBSCRIBE for the filter it already holds and must get the replay each time. Burst scenarios: one SUBSCRIBE matching 27-120 retained topics gets every one of them. Store level also: writes on two nodes with one clock whose broadcasts arrive 0-3 writes late (a clear may overtake the publish it clears): the write that happened last decides on both. distinct = (history, filter); non-trivial = the model holds >=2 topics and the filter matches some but not all"
	c.Assume("one filter per SUBSCRIBE packet; publishes wait for PUBACK (the retained store is updated before the acknowledgement)")
	workers := runtime.NumCPU()
	filters := c01Enumerate([]string{"a", "b", "c", "+", "#", ""}, 4, true)
	tops := c01Enumerate([]string{"a", "b", ""}, 3, false)
	nHist := c.Pick(160, 3000)
	var wg sync.WaitGroup
	for w := 0; w < workers; w++ {
		wg.Add(1)
		go func(w int) {
			defer wg.Done()
			for h := w; h < nHist; h += workers {
				rg := c.SubRng("c07/store", h)
				r := kit.NewReplica(1)
				m := map[string]string{}
				steps := 3 + rg.Intn(14)
				trace := []string{}
				for i := 0; i < steps; i++ {
					t := tops[rg.Intn(len(tops))]
					if rg.Intn(3) > 0 {
						v := fmt.Sprintf("v%d", i)
						r.S.Topics().Set(&packet.Publish{Header: &packet.Header{Retain: true}, Topic: []byte("mp/" + t), Payload: []byte(v)})
						m[t] = v
						trace = append(trace, "set "+t+"="+v)
					} else {
						r.S.Topics().Delete([]byte("mp/" + t))
						delete(m, t)
						trace = append(trace, "clear "+t)
					}
				}
				// "after replication to another": a second replica receives the first one's broadcasts in order,
				// reversed, shuffled, or only the first half followed by a full-state exchange; it must answer like the model too
				r2 := kit.NewReplica(2)
				bs := r.Drain()
				mode := []string{"in-order", "reversed", "shuffled", "half+full-state"}[h%4]
				switch h % 4 {
				case 0:
					for _, b := range bs {
						r2.Deliver(b)
					}
				case 1:
					for i := len(bs) - 1; i >= 0; i-- {
						r2.Deliver(bs[i])
					}
				case 2:
					for _, i := range rg.Perm(len(bs)) {
						r2.Deliver(bs[i])
						if rg.Intn(3) == 0 {
							r2.Deliver(bs[rg.Intn(len(bs))])
						}
					}
				case 3:
					for _, b := range bs[:len(bs)/2] {
						r2.Deliver(b)
					}
					r2.S.Distributor().MergeRemoteState(r.S.Distributor().LocalState(false), false)
				}
				for _, f := range filters[:len(filters):len(filters)] {
					if (len(f)+h)%9 != 0 {
						continue // a ninth of the filters on the replica
					}
					msgs, _ := r2.S.Topics().Get([]byte("mp/" + f))
					got := []string{}
					for _, x := range msgs {
						got = append(got, strings.TrimPrefix(string(x.Publish.Topic), "mp/")+"="+string(x.Publish.Payload))
					}
					want := []string{}
					for t, v := range m {
						if model.Match(f, t) {
							want = append(want, t+"="+v)
						}
					}
					sort.Strings(got)
					sort.Strings(want)
					c.Observe("replica_lookups", 1)
					if strings.Join(got, ";") != strings.Join(want, ";") {
						c.Violation("store-replica:"+mode, fmt.Sprintf("retained store after %v, replicated %s to a second node: there Get(%q) = %q, want %q", trace, mode, f, got, want),
							map[string]interface{}{"history": trace, "replication": mode, "filter": f, "observed": got, "expected": want})
						break
					}
				}
				nontrivial := 0
				for _, f := range filters {
					msgs, err := r.S.Topics().Get([]byte("mp/" + f))
					got := []string{}
					if err != nil {
						got = append(got, "ERROR "+err.Error())
					}
					for _, x := range msgs {
						got = append(got, strings.TrimPrefix(string(x.Publish.Topic), "mp/")+"="+string(x.Publish.Payload))
					}
					want := []string{}
					for t, v := range m {
						if model.Match(f, t) {
							want = append(want, t+"="+v)
						}
					}
					sort.Strings(got)
					sort.Strings(want)
					if len(want) > 0 && len(want) < len(m) {
						nontrivial++
					}
					if strings.Join(got, ";") != strings.Join(want, ";") {
						c.Violation("store:"+c01Class(f, "", got, want), fmt.Sprintf("retained store after %v: Get(%q) = %q, want %q", trace, f, got, want),
							map[string]interface{}{"history": trace, "filter": f, "observed": got, "expected": want})
					}
				}
				c.CaseBulk(len(filters), nontrivial)
				c.Observe("store_lookups", len(filters))
				if h == 0 {
					c.Sample(map[string]interface{}{"part": "store", "history": trace, "filters_queried": len(filters)})
				}
			}
		}(w)
	}
	wg.Wait()

	// ---- store level, two nodes with offset clocks (single goroutine: the clock is a package variable) ----
	// every write happens on a node that has seen all earlier writes, so the last write must win on both
	{
		var tick int64
		active := 0
		offsets := []int64{0, 7000000000}
		restore := distributed.VerifSetClock(func() int64 { tick++; return 1000000 + tick + offsets[active] })
		nPP := c.Pick(400, 6000)
		for h := 0; h < nPP; h++ {
			rg := c.SubRng("c07/pingpong", h)
			rs := []*kit.Replica{kit.NewReplica(1), kit.NewReplica(2)}
			m := map[string]string{}
			trace := []string{}
			steps := 3 + rg.Intn(8)
			for i := 0; i < steps; i++ {
				active = rg.Intn(2)
				t := []string{"a", "a/b", "b"}[rg.Intn(3)]
				if rg.Intn(3) > 0 {
					v := fmt.Sprintf("v%d", i)
					rs[active].S.Topics().Set(&packet.Publish{Header: &packet.Header{Retain: true}, Topic: []byte("mp/" + t), Payload: []byte(v)})
					m[t] = v
					trace = append(trace, fmt.Sprintf("n%d set %s=%s", active+1, t, v))
				} else {
					rs[active].S.Topics().Delete([]byte("mp/" + t))
					delete(m, t)
					trace = append(trace, fmt.Sprintf("n%d clear %s", active+1, t))
				}
				for _, b := range rs[active].Drain() {
					rs[1-active].Deliver(b)
				}
			}
			for ni, r := range rs {
				msgs, _ := r.S.Topics().Get([]byte("mp/#"))
				got := []string{}
				for _, x := range msgs {
					got = append(got, strings.TrimPrefix(string(x.Publish.Topic), "mp/")+"="+string(x.Publish.Payload))
				}
				want := []string{}
				for t, v := range m {
					want = append(want, t+"="+v)
				}
				sort.Strings(got)
				sort.Strings(want)
				c.Observe("offset_clock_lookups", 1)
				if strings.Join(got, ";") != strings.Join(want, ";") {
					c.Violation("store-offset-clocks", fmt.Sprintf("retained writes alternating between two nodes whose clocks differ by 7 s, each delivered to the other before the next (%v): node %d replays %q, the last writes are %q", trace, ni+1, got, want),
						map[string]interface{}{"history": trace, "node": ni + 1, "observed": got, "expected": want})
					break
				}
			}
			c.Case(fmt.Sprintf("pingpong|%v", trace), len(m) > 0)
		}
		// writes on two nodes with ONE clock (stamps follow real time) whose broadcasts reach the other node
		// only after 0-3 further writes: a clear may overtake the publish it clears. In the end the write
		// that happened last decides on both nodes
		tick = 0
		offsets = []int64{0, 0}
		nDel := c.Pick(600, 8000)
		for h := 0; h < nDel; h++ {
			rg := c.SubRng("c07/delayed", h)
			rs := []*kit.Replica{kit.NewReplica(1), kit.NewReplica(2)}
			m := map[string]string{}
			trace := []string{}
			type transit struct {
				to  int
				due int
				b   []byte
			}
			inTransit := []transit{}
			steps := 3 + rg.Intn(8)
			overtaken := false
			for i := 0; i <= steps+4; i++ {
				keep := inTransit[:0]
				for _, tr := range inTransit {
					if tr.due <= i {
						rs[tr.to].Deliver(tr.b)
					} else {
						keep = append(keep, tr)
					}
				}
				inTransit = keep
				if i >= steps {
					continue // only deliveries are left
				}
				active = rg.Intn(2)
				t := []string{"a", "a/b"}[rg.Intn(2)]
				if len(inTransit) > 0 {
					overtaken = true
				}
				if rg.Intn(2) == 0 {
					v := fmt.Sprintf("v%d", i)
					rs[active].S.Topics().Set(&packet.Publish{Header: &packet.Header{Retain: true}, Topic: []byte("mp/" + t), Payload: []byte(v)})
					m[t] = v
					trace = append(trace, fmt.Sprintf("n%d set %s=%s", active+1, t, v))
				} else {
					rs[active].S.Topics().Delete([]byte("mp/" + t))
					delete(m, t)
					trace = append(trace, fmt.Sprintf("n%d clear %s", active+1, t))
				}
				delay := rg.Intn(4)
				for _, b := range rs[active].Drain() {
					inTransit = append(inTransit, transit{1 - active, i + 1 + delay, b})
				}
				if delay > 0 {
					trace[len(trace)-1] += fmt.Sprintf(" (reaches the other node %d writes later)", delay)
				}
			}
			for ni, r := range rs {
				msgs, _ := r.S.Topics().Get([]byte("mp/#"))
				got := []string{}
				for _, x := range msgs {
					got = append(got, strings.TrimPrefix(string(x.Publish.Topic), "mp/")+"="+string(x.Publish.Payload))
				}
				want := []string{}
				for t, v := range m {
					want = append(want, t+"="+v)
				}
				sort.Strings(got)
				sort.Strings(want)
				c.Observe("delayed_gossip_lookups", 1)
				if strings.Join(got, ";") != strings.Join(want, ";") {
					c.Violation("store-delayed-gossip", fmt.Sprintf("retained writes on two nodes with one clock, gossip delayed (%v): once everything is delivered node %d replays %q, the last writes are %q", trace, ni+1, got, want),
						map[string]interface{}{"history": trace, "node": ni + 1, "observed": got, "expected": want})
					break
				}
			}
			c.Case(fmt.Sprintf("delayed|%v", trace), overtaken)
		}
		distributed.VerifSetClock(restore)
	}

	// ---- end to end -------------------------------------------------------------------
	scen := c.Pick(40, 600)
	sem := make(chan struct{}, 8)
	for s := 0; s < scen; s++ {
		if only := os.Getenv("VERIF_ONLY_SCENARIO"); only != "" && only != fmt.Sprint(s) {
			continue
		}
		wg.Add(1)
		sem <- struct{}{}
		go func(s int) {
			defer wg.Done()
			defer func() { <-sem }()
			c07Scenario(c, s)
		}(s)
	}
	for i := 0; i < c.Pick(4, 24); i++ {
		wg.Add(1)
		go func(i int) { defer wg.Done(); c07Burst(c, i) }(i)
	}
	wg.Wait()
	// two goroutines publish retained messages on one topic of one node at the same moment: what the node
	// keeps must be what its broadcasts give a follower
	for r := 0; r < c.Pick(2, 10); r++ {
		c20HotTopic(c, 700+r)
	}
	c.Floor("e2e_subscriptions_checked", 40)
	c.Floor("e2e_retained_copies_seen", 20)
}

var c07Topics = []string{"r/a", "r/a/b", "r/a/b/c", "r/a/c", "r/b"}
var c07Filters = []string{"r/a", "r/a/#", "r/+", "r/a/+", "r/#", "r/+/b", "r/a/b/c", "r/+/+", "r/b/#", "#", "r/a/b/#", "r/c"}

func c07Scenario(c *fw.Ctx, s int) {
	rg := c.SubRng("c07/e2e", s)
	fw.LogCase("C07 e2e scenario %d", s)
	cl := kit.NewCluster(kit.WorkDir("c07"))
	defer cl.Close()
	n1, err := cl.AddNode(kit.NodeOpts{ID: 1})
	if err != nil {
		c.Inconclusive("cannot start node: " + err.Error())
		return
	}
	twoNodes := s%3 == 0
	var n2 *kit.Node
	if twoNodes {
		if n2, err = cl.AddNode(kit.NodeOpts{ID: 2}); err != nil {
			c.Inconclusive("cannot start node: " + err.Error())
			return
		}
	}
	pub, err := n1.MustConnect(kit.ConnectOpts{ClientID: "pub", KeepAlive: 600, Clean: true})
	if err != nil {
		c.Inconclusive("connect: " + err.Error())
		return
	}
	defer pub.Close()
	// standing subscriber: sees live copies
	stand, err := n1.MustConnect(kit.ConnectOpts{ClientID: "standing", KeepAlive: 600, Clean: true})
	if err != nil {
		c.Inconclusive("connect: " + err.Error())
		return
	}
	defer stand.Close()
	if err := stand.Sub1("r/#", 0); err != nil {
		c.Inconclusive("subscribe: " + err.Error())
		return
	}
	// session barrier: SUBACK is written before the retained replays are looked up, so only the
	// PINGRESP proves that the standing subscription is complete before the first publish
	if ok, err := stand.Ping(kit.DefaultWait); !ok {
		c.Inconclusive(fmt.Sprintf("scenario %d: no PINGRESP: %v", s, err))
		return
	}
	// a second standing subscriber that re-sends its SUBSCRIBE now and then: every SUBSCRIBE, also of a
	// filter the session already holds, is answered with the current retained messages
	resub, err := n1.MustConnect(kit.ConnectOpts{ClientID: "resubscriber", KeepAlive: 600, Clean: true})
	if err != nil {
		c.Inconclusive("connect: " + err.Error())
		return
	}
	defer resub.Close()
	if err := resub.Subscribe([]string{"r/#", "zz/resub"}, []int{0, 0}); err != nil {
		c.Inconclusive("subscribe: " + err.Error())
		return
	}
	if ok, err := resub.Ping(kit.DefaultWait); !ok {
		c.Inconclusive(fmt.Sprintf("scenario %d: no PINGRESP: %v", s, err))
		return
	}
	// delivery barrier after every publish: recipients are resolved when the writer handles the
	// message, so a subscription made before that point may legitimately get the live copy too
	settle := func(topic, payload string) bool {
		_, _, err := stand.WaitFor(0, 60*time.Second, func(e kit.Event) bool {
			return e.Pkt.Type == kit.PUBLISH && e.Pkt.Topic == topic && string(e.Pkt.Payload) == payload && !e.Pkt.Retain
		})
		if err != nil {
			c.Inconclusive(fmt.Sprintf("scenario %d: standing subscriber never saw the live copy of %s: %v", s, topic, err))
			return false
		}
		_, _, err = resub.WaitFor(0, 60*time.Second, func(e kit.Event) bool {
			return e.Pkt.Type == kit.PUBLISH && e.Pkt.Topic == topic && string(e.Pkt.Payload) == payload && !e.Pkt.Retain
		})
		if err != nil {
			c.Inconclusive(fmt.Sprintf("scenario %d: second standing subscriber never saw the live copy of %s: %v", s, topic, err))
			return false
		}
		return true
	}
	m := map[string]string{}
	trace := []string{}
	steps := 4 + rg.Intn(9)
	liveSent := []string{}
	sentinelSeq := 0
	for i := 0; i < steps; i++ {
		r := rg.Intn(10)
		switch {
		case r < 4:
			t := c07Topics[rg.Intn(len(c07Topics))]
			v := fmt.Sprintf("s%d-v%d", s, i)
			if acked, err := pub.Publish(t, []byte(v), 1, true, kit.DefaultWait); !acked {
				c.Inconclusive(fmt.Sprintf("scenario %d: retained publish not acknowledged: %v", s, err))
				return
			}
			if !settle(t, v) {
				return
			}
			m[t] = v
			liveSent = append(liveSent, t+"="+v)
			trace = append(trace, "retain "+t+"="+v)
		case r < 6:
			t := c07Topics[rg.Intn(len(c07Topics))]
			if acked, err := pub.Publish(t, nil, 1, true, kit.DefaultWait); !acked {
				c.Inconclusive(fmt.Sprintf("scenario %d: clear not acknowledged: %v", s, err))
				return
			}
			// a clear is followed by a marker so that its (empty) live copy can be told apart
			i2 := fmt.Sprintf("s%d-marker%d", s, i)
			if acked, _ := pub.Publish("r/zz", []byte(i2), 1, false, kit.DefaultWait); !acked || !settle("r/zz", i2) {
				if !acked {
					c.Inconclusive("marker not acknowledged")
				}
				return
			}
			delete(m, t)
			trace = append(trace, "clear "+t)
		case r < 7:
			trace = append(trace, "re-SUBSCRIBE r/# on a session that already holds it")
			sentinelSeq++
			if !c07Subscribe(c, s, n1, "n1", pub, "r/#", m, trace, sentinelSeq, twoNodes, cl, resub) {
				return
			}
			c.Observe("e2e_resubscribes_checked", 1)
		default:
			f := c07Filters[rg.Intn(len(c07Filters))]
			node := n1
			where := "n1"
			if twoNodes && rg.Intn(2) == 0 {
				// replication to the second node: in-order gossip, gossip delivered in reverse order,
				// or gossip lost altogether and repaired by a full-state exchange
				drain := func(n *kit.Node) [][]byte {
					var out [][]byte
					for {
						bs := n.Bcast.GetBroadcasts(0, 1<<30)
						if len(bs) == 0 {
							return out
						}
						out = append(out, bs...)
					}
				}
				switch rg.Intn(3) {
				case 0:
					where = "n2(gossip)"
				case 1:
					bs := drain(n1)
					for i := len(bs) - 1; i >= 0; i-- {
						n2.State.Distributor().NotifyMsg(bs[i])
					}
					where = "n2(gossip reversed)"
					c.Observe("replications_reversed", 1)
				case 2:
					drain(n1) // lost
					cl.PushPull(n1, n2)
					where = "n2(gossip lost, full-state exchange)"
					c.Observe("replications_by_full_state", 1)
				}
				cl.Quiesce() // gossip barrier
				node = n2
			}
			trace = append(trace, fmt.Sprintf("subscribe@%s %s", where, f))
			sentinelSeq++
			if !c07Subscribe(c, s, node, where, pub, f, m, trace, sentinelSeq, twoNodes, cl, nil) {
				return
			}
		}
	}
	// final subscribe so that every scenario checks at least one
	f := c07Filters[rg.Intn(len(c07Filters))]
	trace = append(trace, "subscribe@n1 "+f)
	sentinelSeq++
	if !c07Subscribe(c, s, n1, "n1", pub, f, m, trace, sentinelSeq, twoNodes, cl, nil) {
		return
	}
	// live copies at the standing subscriber: not flagged, one each
	sentinelSeq++
	tag := fmt.Sprintf("END-%d-%d", s, sentinelSeq)
	if acked, _ := pub.Publish("r/zz", []byte(tag), 1, false, kit.DefaultWait); !acked {
		c.Inconclusive("final sentinel not acknowledged")
		return
	}
	if _, _, err := stand.WaitFor(0, 60*time.Second, func(e kit.Event) bool { return e.Pkt.Type == kit.PUBLISH && string(e.Pkt.Payload) == tag }); err != nil {
		c.Inconclusive("standing subscriber never saw the final sentinel: " + err.Error())
		return
	}
	got := map[string]int{}
	for _, p := range stand.Publishes() {
		k := p.Topic + "=" + string(p.Payload)
		got[k]++
		if p.Retain && len(p.Payload) > 0 && p.Topic != "r/zz" {
			c.Violation("e2e:live-copy-flagged-retained", fmt.Sprintf("scenario %d: the live copy of %s delivered to a standing subscriber carries the retain flag (history %v)", s, k, trace), map[string]interface{}{"scenario": s, "history": trace, "message": k, "standing_subscriber_events": c07Evs(stand)})
		}
	}
	for _, k := range liveSent {
		c.Observe("e2e_live_copies_checked", 1)
		if got[k] != 1 {
			c.Violation("e2e:live-copy-count", fmt.Sprintf("scenario %d: standing subscriber received %d live copies of %s (history %v)", s, got[k], k, trace), map[string]interface{}{"scenario": s, "history": trace, "message": k, "copies": got[k]})
		}
	}
	if s < 2 {
		c.Sample(map[string]interface{}{"part": "e2e", "scenario": s, "history": trace})
	}
}

func c07Subscribe(c *fw.Ctx, s int, node *kit.Node, where string, pub *kit.Client, f string, m map[string]string, trace []string, seq int, twoNodes bool, cl *kit.Cluster, reuse *kit.Client) bool {
	cc := reuse
	sentinelTopic := "zz/resub"
	if reuse == nil {
		var err error
		cc, err = node.MustConnect(kit.ConnectOpts{ClientID: fmt.Sprintf("late-%d-%d", s, seq), KeepAlive: 600, Clean: true})
		if err != nil {
			c.Inconclusive("connect: " + err.Error())
			return false
		}
		defer cc.Close()
		sentinelTopic = fmt.Sprintf("zz/s%d", seq)
		if err := cc.Sub1(sentinelTopic, 0); err != nil {
			c.Inconclusive("subscribe sentinel: " + err.Error())
			return false
		}
		if twoNodes {
			cl.Quiesce() // the publisher's node must know the sentinel subscription
		}
	}
	from := cc.NumEvents()
	if err := cc.Sub1(f, 0); err != nil {
		c.Inconclusive("subscribe: " + err.Error())
		return false
	}
	// session barrier: PINGRESP proves SUBSCRIBE processing (incl. enqueuing the replays) finished
	if ok, err := cc.Ping(kit.DefaultWait); !ok {
		c.Inconclusive(fmt.Sprintf("scenario %d: no PINGRESP after SUBSCRIBE: %v", s, err))
		return false
	}
	// delivery barrier
	tag := fmt.Sprintf("S-%d-%d", s, seq)
	if acked, _ := pub.Publish(sentinelTopic, []byte(tag), 1, false, kit.DefaultWait); !acked {
		c.Inconclusive("sentinel not acknowledged")
		return false
	}
	if _, _, err := cc.WaitFor(from, 60*time.Second, func(e kit.Event) bool { return e.Pkt.Type == kit.PUBLISH && string(e.Pkt.Payload) == tag }); err != nil {
		c.Inconclusive(fmt.Sprintf("scenario %d: late subscriber never saw its sentinel: %v", s, err))
		return false
	}
	got := map[string]int{}
	flagged := map[string]bool{}
	for _, e := range cc.Events()[from:] {
		if e.Pkt.Type != kit.PUBLISH || e.Pkt.Topic == sentinelTopic {
			continue
		}
		k := e.Pkt.Topic + "=" + string(e.Pkt.Payload)
		got[k]++
		flagged[k] = e.Pkt.Retain
		c.Observe("e2e_retained_copies_seen", 1)
	}
	want := map[string]bool{}
	matched := 0
	for t, v := range m {
		if model.Match(f, t) {
			want[t+"="+v] = true
			matched++
		}
	}
	c.Observe("e2e_subscriptions_checked", 1)
	c.Case(fmt.Sprintf("e2e|%v|%s", trace, f), len(m) >= 2 && matched > 0 && matched < len(m))
	wit := func(extra map[string]interface{}) map[string]interface{} {
		out := map[string]interface{}{"scenario": s, "history": append([]string{}, trace...), "filter": f, "node": where, "model": fmt.Sprint(m)}
		for k, v := range extra {
			out[k] = v
		}
		return out
	}
	for k := range want {
		switch {
		case got[k] == 0:
			c.Violation("e2e:replay-missing", fmt.Sprintf("scenario %d: subscription %q on %s did not receive the retained message %s (history %v)", s, f, where, k, trace), wit(map[string]interface{}{"missing": k}))
		case got[k] > 1:
			c.Violation("e2e:replay-duplicated", fmt.Sprintf("scenario %d: subscription %q on %s received %d copies of the retained message %s", s, f, where, got[k], k), wit(map[string]interface{}{"message": k, "copies": got[k]}))
		case !flagged[k]:
			c.Violation("e2e:replay-not-flagged", fmt.Sprintf("scenario %d: subscription %q on %s received the retained message %s without the retain flag", s, f, where, k), wit(map[string]interface{}{"message": k}))
		}
	}
	for k := range got {
		if !want[k] {
			c.Violation("e2e:replay-unexpected", fmt.Sprintf("scenario %d: subscription %q on %s received %s which is not the current retained message of a matching topic (model %v, history %v)", s, f, where, k, m, trace), wit(map[string]interface{}{"message": k}))
		}
	}
	return true
}

func c07Evs(cl *kit.Client) []string {
	out := []string{}
	for _, e := range cl.Events() {
		out = append(out, fmt.Sprintf("%d %s", e.Seq, e.Pkt))
	}
	return out
}

// c07Burst: one SUBSCRIBE matches many retained topics at once (more than any internal queue holds):
// every one of them is replayed, flagged, exactly once.
func c07Burst(c *fw.Ctx, idx int) {
	fw.LogCase("C07 burst %d", idx)
	cl := kit.NewCluster(kit.WorkDir("c07b"))
	defer cl.Close()
	n, err := cl.AddNode(kit.NodeOpts{ID: 1})
	if err != nil {
		c.Inconclusive("cannot start node: " + err.Error())
		return
	}
	pub, err := n.MustConnect(kit.ConnectOpts{ClientID: "pub", KeepAlive: 600, Clean: true})
	if err != nil {
		c.Inconclusive("connect: " + err.Error())
		return
	}
	defer pub.Close()
	count := []int{30, 60, 120, 27}[idx%4]
	want := map[string]bool{}
	for i := 0; i < count; i++ {
		t := fmt.Sprintf("rb/%d/%d", i%7, i)
		v := fmt.Sprintf("b%d-%d", idx, i)
		if acked, _ := pub.Publish(t, []byte(v), 1, true, kit.DefaultWait); !acked {
			c.Inconclusive("retained publish not acknowledged")
			return
		}
		want[t+"="+v] = true
	}
	sub, err := n.MustConnect(kit.ConnectOpts{ClientID: "late", KeepAlive: 600, Clean: true})
	if err != nil {
		c.Inconclusive("connect: " + err.Error())
		return
	}
	defer sub.Close()
	if err := sub.Sub1("zz/burst", 0); err != nil {
		c.Inconclusive("subscribe: " + err.Error())
		return
	}
	qos := idx % 2
	if err := sub.Sub1("rb/#", qos); err != nil {
		c.Inconclusive("subscribe: " + err.Error())
		return
	}
	if ok, _ := sub.Ping(kit.DefaultWait); !ok {
		c.Inconclusive("no PINGRESP after SUBSCRIBE")
		return
	}
	if acked, _ := pub.Publish("zz/burst", []byte("END"), 1, false, kit.DefaultWait); !acked {
		c.Inconclusive("sentinel not acknowledged")
		return
	}
	if _, _, err := sub.WaitFor(0, 60*time.Second, func(e kit.Event) bool { return e.Pkt.Type == kit.PUBLISH && e.Pkt.Topic == "zz/burst" }); err != nil {
		c.Inconclusive("late subscriber never saw its sentinel: " + err.Error())
		return
	}
	got := map[string]int{}
	for _, p := range sub.Publishes() {
		if p.Topic == "zz/burst" || p.Dup {
			continue
		}
		got[p.Topic+"="+string(p.Payload)]++
		c.Observe("e2e_retained_copies_seen", 1)
	}
	missing := []string{}
	for k := range want {
		if got[k] == 0 {
			missing = append(missing, k)
		} else if got[k] > 1 {
			c.Violation("e2e:replay-duplicated", fmt.Sprintf("burst scenario %d: subscription 'rb/#' received %d copies of the retained message %s", idx, got[k], k), nil)
		}
	}
	sort.Strings(missing)
	c.Observe("e2e_subscriptions_checked", 1)
	c.Case(fmt.Sprintf("burst|%d|%d", idx, count), true)
	if len(missing) > 0 {
		c.Violation("e2e:replay-missing:burst", fmt.Sprintf("burst scenario %d: a subscription (QoS %d) matching %d retained topics received only %d of them; missing e.g. %s", idx, qos, count, count-len(missing), missing[0]),
			map[string]interface{}{"scenario": idx, "retained_topics": count, "missing": len(missing)})
	}
}
