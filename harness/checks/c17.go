package checks

import (
	"fmt"
	"strings"
	"sync"
	"time"

	"wv/fw"
	"wv/kit"
	"wv/model"
)

// C17 — mount points isolate tenants.

func init() {
	fw.Register("C17", fw.Spec{Run: runC17})
}

var c17Filters = []string{"#", "+", "+/#", "x/+", "x/a", "+/a", "x/#", "tA/#", "tB/x/a", "tA/x/a", "+/x/a", "/#", "/+", "//y"}
var c17Topics = []string{"x/a", "x/b", "y", "tA/x/a", "tB/x/a", "x/a/b", "tB", "tA", "/x", "//y", "/"}

type c17Sub struct {
	tenant string
	node   int
	filter string
	cl     *kit.Client
	late   bool // subscribes after the retained publishes
}

func c17Run(c *fw.Ctx, idx int) {
	rg := c.SubRng("c17", idx)
	fw.LogCase("C17 scenario %d", idx)
	nNodes := 1 + rg.Intn(2)
	nodeFailure := nNodes == 2 && rg.Intn(2) == 0
	if nodeFailure {
		nNodes = 3 // the dying session's node fails, two survive
	}
	cl := kit.NewCluster(kit.WorkDir("c17"))
	defer cl.Close()
	auth := kit.PredictableAuth() // user name = mount point
	nodes := []*kit.Node{}
	for i := 1; i <= nNodes; i++ {
		n, err := cl.AddNode(kit.NodeOpts{ID: uint64(i), Auth: auth})
		if err != nil {
			c.Inconclusive("cannot start node: " + err.Error())
			return
		}
		nodes = append(nodes, n)
	}
	cl.StartPump(3 * time.Millisecond)
	tenants := []string{"tA", "tB"}
	if rg.Intn(2) == 0 {
		tenants = append(tenants, "t")
	}
	if idx%3 == 2 {
		tenants = append(tenants, "org/unit") // a mount point with a level separator in its name
	}
	live := nNodes
	if nodeFailure {
		live = 2 // node 3 only hosts the sessions that die with it
	}
	desc := fmt.Sprintf("scenario %d: %d node(s), tenants %v", idx, nNodes, tenants)
	subs := []*c17Sub{}
	mk := func(tenant string, node int, filter string, late bool, n int) *c17Sub {
		cc, err := nodes[node].MustConnect(kit.ConnectOpts{ClientID: fmt.Sprintf("sub%d", n), KeepAlive: 600, Clean: true, User: tenant})
		if err != nil {
			c.Inconclusive(desc + ": connect: " + err.Error())
			return nil
		}
		if err := cc.Subscribe([]string{"zz/end"}, []int{0}); err != nil {
			c.Inconclusive(desc + ": subscribe: " + err.Error())
			return nil
		}
		return &c17Sub{tenant: tenant, node: node, filter: filter, cl: cc, late: late}
	}
	closeAll := func() {
		for _, s := range subs {
			s.cl.Close()
		}
	}
	defer closeAll()
	n := 0
	for _, t := range tenants {
		for k := 0; k < 3; k++ {
			n++
			s := mk(t, rg.Intn(live), c17Filters[rg.Intn(len(c17Filters))], false, n) // same client ids "subN" are NOT shared; see below for shared ids
			if s == nil {
				return
			}
			if err := s.cl.Sub1(s.filter, 0); err != nil {
				c.Inconclusive(desc + ": subscribe: " + err.Error())
				return
			}
			subs = append(subs, s)
		}
	}
	// shared client identifier across tenants
	shared := map[string]*kit.Client{}
	sharedNode := rg.Intn(live)
	for _, t := range tenants {
		if idx%2 == 1 {
			sharedNode = rg.Intn(live) // even scenarios: all on one node; odd: anywhere
		}
		cc, err := nodes[sharedNode].MustConnect(kit.ConnectOpts{ClientID: "shared-id", KeepAlive: 600, Clean: true, User: t})
		if err != nil {
			c.Violation("shared-client-id-refused", fmt.Sprintf("%s: tenant %s could not connect with a client identifier used in another mount point: %v", desc, t, err), nil)
			return
		}
		defer cc.Close()
		if err := cc.Subscribe([]string{"x/a", "zz/end"}, []int{0, 0}); err != nil {
			c.Inconclusive(desc + ": subscribe: " + err.Error())
			return
		}
		shared[t] = cc
		cl.StopPump()
		cl.Quiesce()
		cl.StartPump(3 * time.Millisecond)
	}
	for _, t := range tenants {
		subs = append(subs, &c17Sub{tenant: t, filter: "x/a", cl: shared[t]})
	}
	// client identifiers whose concatenation with the mount point coincides: tenant "t" with "Ashared-id"
	// and tenant "tA" with "shared-id" are different sessions
	for _, t := range tenants {
		if t != "t" {
			continue
		}
		for _, other := range tenants {
			if other == "t" {
				continue
			}
			cid := strings.TrimPrefix(other, "t") + "shared-id"
			cc, err := nodes[sharedNode].MustConnect(kit.ConnectOpts{ClientID: cid, KeepAlive: 600, Clean: true, User: "t"})
			if err != nil {
				c.Violation("shared-client-id-refused", fmt.Sprintf("%s: tenant t could not connect with client identifier %q: %v", desc, cid, err), nil)
				return
			}
			defer cc.Close()
			if err := cc.Subscribe([]string{"x/a", "zz/end"}, []int{0, 0}); err != nil {
				c.Inconclusive(desc + ": subscribe: " + err.Error())
				return
			}
			subs = append(subs, &c17Sub{tenant: "t", filter: "x/a", cl: cc})
			cl.StopPump()
			cl.Quiesce()
			cl.StartPump(3 * time.Millisecond)
			c.Observe("client_ids_colliding_by_concatenation", 1)
		}
	}
	// publishers and wills
	type sentMsg struct {
		tenant, topic, tag string
		retained           bool
	}
	sent := []sentMsg{}
	pubs := map[string]*kit.Client{}
	for _, t := range tenants {
		p, err := nodes[rg.Intn(live)].MustConnect(kit.ConnectOpts{ClientID: "pub", KeepAlive: 600, Clean: true, User: t})
		if err != nil {
			c.Inconclusive(desc + ": connect: " + err.Error())
			return
		}
		defer p.Close()
		pubs[t] = p
	}
	cl.StopPump()
	cl.Quiesce()
	cl.StartPump(3 * time.Millisecond)
	for _, t := range tenants {
		for k := 0; k < 4; k++ {
			topic := c17Topics[rg.Intn(len(c17Topics))]
			m := sentMsg{tenant: t, topic: topic, tag: fmt.Sprintf("m-%d-%s-%d", idx, t, k), retained: k == idx%2}
			qos := 1 + k%2 // QoS 1 and QoS 2 (acknowledged, so that the barrier argument holds)
			if acked, err := pubs[t].Publish(topic, []byte(m.tag), qos, m.retained, kit.DefaultWait); !acked {
				c.Inconclusive(fmt.Sprintf("%s: publish not acknowledged: %v", desc, err))
				return
			}
			sent = append(sent, m)
		}
	}
	// a delivery that stays unacknowledged is written again by the expiry sweeps: every copy carries the
	// topic the publisher used - also when that topic begins with the tenant's own mount point name
	for _, t := range tenants {
		ra, err := nodes[0].MustConnect(kit.ConnectOpts{ClientID: "noack", KeepAlive: 600, Clean: true, User: t})
		if err != nil {
			c.Inconclusive(desc + ": connect: " + err.Error())
			return
		}
		defer ra.Close()
		ra.SetAutoAck(false)
		if err := ra.Sub1("#", 1); err != nil {
			c.Inconclusive(desc + ": subscribe: " + err.Error())
			return
		}
		cl.StopPump()
		cl.Quiesce()
		cl.StartPump(3 * time.Millisecond)
		topic, tag := t+"/rtx", fmt.Sprintf("rtx-%d-%s", idx, t)
		if acked, err := pubs[t].Publish(topic, []byte(tag), 1, false, kit.DefaultWait); !acked {
			c.Inconclusive(fmt.Sprintf("%s: publish not acknowledged: %v", desc, err))
			return
		}
		if _, _, err := ra.WaitFor(0, 30*time.Second, func(e kit.Event) bool { return e.Pkt.Type == kit.PUBLISH && string(e.Pkt.Payload) == tag }); err != nil {
			c.Violation("own-tenant-publish-missing", fmt.Sprintf("%s: a QoS 1 subscriber of tenant %s with filter '#' did not receive %q on %q", desc, t, tag, topic), nil)
			return
		}
		far := time.Now()
		for k := 0; k < 2; k++ {
			far = far.Add(time.Hour)
			nodes[0].Ack.Expire(far)
			ra.Ping(kit.DefaultWait)
		}
		copies := 0
		for _, p := range ra.Publishes() {
			if string(p.Payload) != tag {
				continue
			}
			copies++
			if p.Topic != topic {
				c.Violation("topic-altered:retransmission", fmt.Sprintf("%s: tenant %s published on %q; copy %d written to an unacknowledging subscriber carries topic %q", desc, t, topic, copies, p.Topic),
					map[string]interface{}{"scenario": idx, "published": topic, "received": p.Topic, "copy": copies})
				return
			}
			ra.Send(kit.EncPubAck(p.ID))
		}
		c.Observe("retransmitted_copies_topic_checked", copies)
	}
	// wills: one dying session per tenant
	wills := []sentMsg{}
	dyingClients := []*kit.Client{}
	for ti, t := range tenants {
		topic := c17Topics[rg.Intn(len(c17Topics))]
		m := sentMsg{tenant: t, topic: topic, tag: fmt.Sprintf("will-%d-%s", idx, t)}
		host := rg.Intn(live)
		if nodeFailure {
			host = 2
		}
		d, err := nodes[host].MustConnect(kit.ConnectOpts{ClientID: "dying", KeepAlive: 600, Clean: true, User: t, Will: true, WillTopic: topic, WillPayload: []byte(m.tag), WillQos: ti % 2})
		if err != nil {
			c.Inconclusive(desc + ": connect: " + err.Error())
			return
		}
		defer d.Close()
		wills = append(wills, m)
		dyingClients = append(dyingClients, d)
	}
	if !nodeFailure {
		// all of them are connected (same client identifier "dying" in every tenant) before the first one is lost
		cl.StopPump()
		cl.Quiesce()
		cl.StartPump(3 * time.Millisecond)
		for _, d := range dyingClients {
			d.Close()
			time.Sleep(30 * time.Millisecond)
		}
	}
	if nodeFailure {
		cl.StopPump()
		cl.Quiesce()
		cl.FailNode(nodes[2])
		cl.StartPump(3 * time.Millisecond)
		time.Sleep(3300 * time.Millisecond)
	}
	// the shared-identifier sessions run overlapping QoS 2 handshakes with the SAME packet identifier:
	// packet identifiers are per session, the handshakes must not meet
	for _, t := range tenants {
		m := sentMsg{tenant: t, topic: "x/a", tag: fmt.Sprintf("q2-%d-%s", idx, t)}
		from := shared[t].NumEvents()
		shared[t].Send(kit.EncPublish("x/a", []byte(m.tag), 2, false, false, 77))
		if _, _, err := shared[t].WaitFor(from, kit.DefaultWait, func(e kit.Event) bool { return e.Pkt.Type == kit.PUBREC && e.Pkt.ID == 77 }); err != nil {
			c.Violation("shared-client-id-interference:qos2", fmt.Sprintf("%s: tenant %s's session 'shared-id' got no PUBREC for a QoS 2 publish with packet identifier 77 while the same-named session of another tenant holds an unreleased publish with that identifier (%v)", desc, t, err), map[string]interface{}{"scenario": idx, "tenant": t, "tenants": tenants})
			return
		}
		sent = append(sent, m)
	}
	for _, t := range tenants {
		from := shared[t].NumEvents()
		shared[t].Send(kit.EncPubRel(77))
		if _, _, err := shared[t].WaitFor(from, kit.DefaultWait, func(e kit.Event) bool { return e.Pkt.Type == kit.PUBCOMP && e.Pkt.ID == 77 }); err != nil {
			c.Violation("shared-client-id-interference:qos2", fmt.Sprintf("%s: tenant %s's session 'shared-id' got no PUBCOMP for its QoS 2 handshake with packet identifier 77 (%v)", desc, t, err), map[string]interface{}{"scenario": idx, "tenant": t, "tenants": tenants})
			return
		}
		c.Observe("overlapping_qos2_handshakes_same_identifier", 1)
	}
	// one tenant's shared-identifier client connects again (a take-over inside its own mount point): the
	// same-named sessions of the other tenants are none of its business
	{
		t0 := tenants[idx%len(tenants)]
		nc, err := nodes[sharedNode].MustConnect(kit.ConnectOpts{ClientID: "shared-id", KeepAlive: 600, Clean: true, User: t0})
		if err != nil {
			c.Violation("shared-client-id-refused", fmt.Sprintf("%s: tenant %s could not re-connect with its client identifier: %v", desc, t0, err), nil)
			return
		}
		defer nc.Close()
		if err := nc.Subscribe([]string{"x/a", "zz/end"}, []int{0, 0}); err != nil {
			c.Inconclusive(desc + ": subscribe: " + err.Error())
			return
		}
		old := shared[t0]
		shared[t0] = nc
		for _, su := range subs {
			if su.cl == old {
				su.cl = nc
				su.late = true // judged from here on only
			}
		}
		cl.StopPump()
		cl.Quiesce()
		cl.StartPump(3 * time.Millisecond)
		old.Send(kit.EncPingReq())
		old.WaitClosed(5 * time.Second)
		old.Close()
		c.Observe("takeovers_inside_one_tenant", 1)
	}
	// tenant A's session with the shared identifier is still served
	for _, t := range tenants {
		if ok, err := shared[t].Ping(kit.DefaultWait); !ok {
			c.Violation("shared-client-id-interference", fmt.Sprintf("%s: the session of tenant %s with client identifier 'shared-id' stopped answering PINGREQ after other tenants connected with the same identifier (%v)", desc, t, err), map[string]interface{}{"scenario": idx, "tenant": t, "tenants": tenants})
			return
		}
	}
	// late subscribers (retained replay)
	for _, t := range tenants {
		n++
		s := mk(t, rg.Intn(live), c17Filters[rg.Intn(len(c17Filters))], true, n)
		if s == nil {
			return
		}
		if err := s.cl.Sub1(s.filter, 0); err != nil {
			c.Inconclusive(desc + ": subscribe: " + err.Error())
			return
		}
		if ok, _ := s.cl.Ping(kit.DefaultWait); !ok {
			c.Inconclusive(desc + ": no PINGRESP from late subscriber")
			return
		}
		subs = append(subs, s)
	}
	cl.StopPump()
	cl.Quiesce()
	cl.StartPump(3 * time.Millisecond)
	time.Sleep(100 * time.Millisecond)
	// barrier per tenant
	for _, t := range tenants {
		if acked, err := pubs[t].Publish("zz/end", []byte("END-"+t), 1, false, kit.DefaultWait); !acked {
			c.Inconclusive(fmt.Sprintf("%s: sentinel not acknowledged: %v", desc, err))
			return
		}
	}
	tenantOfTag := func(tag string) string {
		for _, t := range tenants {
			if strings.HasSuffix(tag, "-"+t) || strings.Contains(tag, "-"+t+"-") {
				return t
			}
		}
		return ""
	}
	for _, s := range subs {
		if _, _, err := s.cl.WaitFor(0, 30*time.Second, func(e kit.Event) bool { return e.Pkt.Type == kit.PUBLISH && string(e.Pkt.Payload) == "END-"+s.tenant }); err != nil {
			if s.cl.Closed() {
				c.Violation("subscriber-dropped", fmt.Sprintf("%s: a subscriber of tenant %s (filter %q) was disconnected", desc, s.tenant, s.filter), nil)
			} else {
				c.Inconclusive(fmt.Sprintf("%s: subscriber of %s never saw its sentinel: %v", desc, s.tenant, err))
			}
			return
		}
		got := map[string]string{} // tag -> topic
		for _, p := range s.cl.Publishes() {
			tag := string(p.Payload)
			if strings.HasPrefix(tag, "END-") {
				if tag != "END-"+s.tenant {
					c.Violation("leak:sentinel", fmt.Sprintf("%s: subscriber of tenant %s received another tenant's message %q", desc, s.tenant, tag), nil)
				}
				continue
			}
			got[tag] = p.Topic
			if o := tenantOfTag(tag); o != s.tenant {
				kind := "publish"
				if strings.HasPrefix(tag, "will-") {
					kind = "will"
				} else if p.Retain {
					kind = "retained"
				}
				c.Violation("leak:"+kind, fmt.Sprintf("%s: subscriber of tenant %s with filter %q received %s of tenant %s (%q on topic %q)", desc, s.tenant, s.filter, kind, o, tag, p.Topic),
					map[string]interface{}{"scenario": idx, "subscriber_tenant": s.tenant, "filter": s.filter, "message": tag, "topic": p.Topic, "tenants": tenants})
			}
		}
		c.Observe("subscribers_checked", 1)
		all := append(append([]sentMsg{}, sent...), wills...)
		for _, m := range all {
			if m.tenant != s.tenant {
				continue
			}
			isWill := strings.HasPrefix(m.tag, "will-")
			want := model.Match(s.filter, m.topic)
			if s.late {
				want = want && m.retained // only the retained replay
			}
			topic, have := got[m.tag]
			c.Observe("own_tenant_messages_compared", 1)
			if want && !have {
				kind := "publish"
				if isWill {
					kind = "will"
				} else if s.late {
					kind = "retained"
				}
				c.Violation("own-tenant-"+kind+"-missing", fmt.Sprintf("%s: subscriber of tenant %s with filter %q did not receive its own tenant's %s %q on %q", desc, s.tenant, s.filter, kind, m.tag, m.topic),
					map[string]interface{}{"scenario": idx, "tenant": s.tenant, "filter": s.filter, "topic": m.topic, "node_failure": nodeFailure})
			}
			if !want && have && !s.late {
				c.Violation("own-tenant-unexpected", fmt.Sprintf("%s: subscriber of tenant %s with filter %q received %q on %q which its filter does not match", desc, s.tenant, s.filter, m.tag, m.topic), nil)
			}
			if have && topic != m.topic {
				c.Violation("topic-altered", fmt.Sprintf("%s: tenant %s published on %q, the subscriber saw topic %q (mount-point prefix leaked or wrongly stripped)", desc, s.tenant, m.topic, topic),
					map[string]interface{}{"scenario": idx, "published": m.topic, "received": topic})
			}
		}
	}
	c.Case(fmt.Sprintf("%d|%v|%d|%v", idx, tenants, nNodes, nodeFailure), true)
	if idx < 2 {
		fl := []string{}
		for _, s := range subs {
			fl = append(fl, s.tenant+":"+s.filter)
		}
		c.Sample(map[string]interface{}{"scenario": idx, "nodes": nNodes, "tenants": tenants, "subscribers": fl, "node_failure": nodeFailure})
	}
}

func runC17(c *fw.Ctx) {
	c.Rule = "seeded scenarios with 2-3 tenants (mount points tA, tB and t - one a prefix of the others - assigned through the user name) on 1-2 nodes (+1 node that fails in node-failure scenarios): per tenant 3 subscribers with filters drawn from {#, +, +/#, x/+, x/a, +/a, x/#, tA/#, tB/x/a, tA/x/a, +/x/a}, a client with the SAME client identifier in every tenant, clients whose mount point + identifier concatenations coincide ('t'+'Ashared-id' / 'tA'+'shared-id'), (on one node in half of the scenarios; these run overlapping QoS 2 handshakes with the same packet identifier), a publisher sending 4 tagged publishes (one retained) on topics that include other tenants' names as first level, a session with a will that dies (connection loss, or with its node), and a late subscriber per tenant (retained replay). After per-tenant sentinel barriers: no subscriber holds a message tagged by another tenant; own-tenant messages arrive iff the filter matches, with the topic byte-identical to the published one; the shared-identifier sessions still answer PINGREQ. distinct = scenario; non-trivial = all"
	c.Assume("the authentication handler maps the user name to the mount point; names contain no '/'")
	n := c.Pick(30, 600)
	sem := make(chan struct{}, 12)
	var wg sync.WaitGroup
	for i := 0; i < n; i++ {
		wg.Add(1)
		sem <- struct{}{}
		go func(i int) {
			defer wg.Done()
			defer func() { <-sem }()
			c17Run(c, i)
		}(i)
	}
	wg.Wait()
	c.Floor("subscribers_checked", 100)
	c.Floor("own_tenant_messages_compared", 300)
}
