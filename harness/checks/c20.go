package checks

import (
	"fmt"
	"net"
	"runtime"
	"sort"
	"sync"
	"sync/atomic"
	"time"

	"github.com/anishathalye/porcupine"
	"github.com/vx-labs/mqtt-protocol/packet"
	"github.com/vx-labs/wasp/v4/subscriptions"
	"github.com/vx-labs/wasp/v4/topics"
	"github.com/vx-labs/wasp/v4/wasp"
	"github.com/vx-labs/wasp/v4/wasp/api"
	"github.com/vx-labs/wasp/v4/wasp/distributed"
	"github.com/vx-labs/wasp/v4/wasp/sessions"

	"wv/fw"
	"wv/kit"
	"wv/model"
)

// C20 — shared broker state is safe under concurrent use.
//
// This check is built with -race (see verif.sh); the parent collects the race
// detector's reports. The workloads below also carry their own oracles.

func init() {
	fw.Register("C20", fw.Spec{Run: runC20, Race: true})
}

// ---- 1. session registry, porcupine --------------------------------------------------

type regIn struct {
	op  int // 0 create 1 get 2 delete
	key string
	val int
}

func c20Registry(c *fw.Ctx, round int) {
	st := wasp.NewState(1)
	keys := []string{"k0", "k1", "k2"}
	nG := 8
	perG := 12
	sess := map[int]*sessions.Session{}
	back := map[*sessions.Session]int{}
	for i := 1; i <= nG*perG+1; i++ {
		a, _ := net.Pipe()
		s, _ := sessions.NewSession(fmt.Sprintf("v%d", i), "mp", "tcp", a, &packet.Connect{ClientId: []byte("c"), KeepaliveTimer: 30})
		sess[i] = s
		back[s] = i
	}
	var clock int64
	var mu sync.Mutex
	ops := []porcupine.Operation{}
	var wg sync.WaitGroup
	for g := 0; g < nG; g++ {
		wg.Add(1)
		go func(g int) {
			defer wg.Done()
			rg := c.SubRng(fmt.Sprintf("c20/reg/%d", round), g)
			for i := 0; i < perG; i++ {
				in := regIn{op: rg.Intn(3), key: keys[rg.Intn(len(keys))], val: g*perG + i + 1}
				call := atomic.AddInt64(&clock, 1)
				var out *sessions.Session
				switch in.op {
				case 0:
					out = st.Create(in.key, sess[in.val])
				case 1:
					out = st.Get(in.key)
					if rg.Intn(4) == 0 {
						st.ListSessions()
					}
				case 2:
					out = st.Delete(in.key)
				}
				ret := atomic.AddInt64(&clock, 1)
				mu.Lock()
				ops = append(ops, porcupine.Operation{ClientId: g, Input: in, Call: call, Output: back[out], Return: ret})
				mu.Unlock()
			}
		}(g)
	}
	wg.Wait()
	m := porcupine.Model{
		Partition: func(history []porcupine.Operation) [][]porcupine.Operation {
			by := map[string][]porcupine.Operation{}
			for _, o := range history {
				k := o.Input.(regIn).key
				by[k] = append(by[k], o)
			}
			out := [][]porcupine.Operation{}
			for _, v := range by {
				out = append(out, v)
			}
			return out
		},
		Init: func() interface{} { return 0 },
		Step: func(state, input, output interface{}) (bool, interface{}) {
			in := input.(regIn)
			cur := state.(int)
			switch in.op {
			case 0:
				return output.(int) == cur, in.val
			case 1:
				return output.(int) == cur, cur
			default:
				return output.(int) == cur, 0
			}
		},
		Equal: func(a, b interface{}) bool { return a.(int) == b.(int) },
	}
	res := porcupine.CheckOperationsTimeout(m, ops, 60*time.Second)
	c.Observe("registry_operations", len(ops))
	c.Case(fmt.Sprintf("registry|%d", round), true)
	switch res {
	case porcupine.Illegal:
		c.Violation("registry-not-linearizable", fmt.Sprintf("registry round %d: the recorded history of %d Create/Get/Delete operations is not linearizable as a per-key register", round, len(ops)), map[string]interface{}{"round": round, "operations": len(ops)})
	case porcupine.Unknown:
		c.Observe("registry_histories_undecided", 1)
	default:
		c.Observe("registry_histories_linearizable", 1)
	}
}

// ---- 2. identifier pool -------------------------------------------------------------------

func c20Pool(c *fw.Ctx, round int) {
	p := wasp.VerifNewMIDPool(1, 200)
	var mu sync.Mutex
	out := map[int32]int{}
	var dup int64
	var gets int64
	var wg sync.WaitGroup
	for g := 0; g < 12; g++ {
		wg.Add(1)
		go func(g int) {
			defer wg.Done()
			rg := c.SubRng(fmt.Sprintf("c20/pool/%d", round), g)
			mine := []int32{}
			for i := 0; i < 3000; i++ {
				if len(mine) > 0 && rg.Intn(2) == 0 {
					j := rg.Intn(len(mine))
					id := mine[j]
					mine = append(mine[:j], mine[j+1:]...)
					mu.Lock()
					delete(out, id)
					mu.Unlock()
					p.Put(id)
				} else {
					id := p.Get()
					atomic.AddInt64(&gets, 1)
					if id < 1 || id > 200 {
						continue // exhausted
					}
					mu.Lock()
					if _, busy := out[id]; busy {
						atomic.AddInt64(&dup, 1)
					}
					out[id] = g
					mu.Unlock()
					mine = append(mine, id)
				}
			}
		}(g)
	}
	wg.Wait()
	c.Observe("pool_gets", int(gets))
	c.Case(fmt.Sprintf("pool|%d", round), true)
	if dup > 0 {
		c.Violation("pool-duplicate-identifier", fmt.Sprintf("pool round %d: %d identifiers were handed out while still outstanding (12 goroutines, range 1..200)", round, dup), map[string]interface{}{"round": round, "duplicates": dup})
	}
}

// ---- 4. tries -------------------------------------------------------------------------------

func c20Tries(c *fw.Ctx, round int) {
	ts := topics.NewTree()
	ss := subscriptions.NewTree()
	if round%2 == 1 {
		// start from stores rebuilt by Load, as after a restart
		ts.Insert([]byte("seed/x"), []byte("seed"))
		ss.Upsert([]byte("seed/x"), func([]byte) []byte { return []byte("seed") })
		for i := 0; i < 400; i++ {
			// many loaded leaves: readers will look below them
			ts.Insert([]byte(fmt.Sprintf("leaf/%d", i)), []byte("l"))
			ts.Remove([]byte(fmt.Sprintf("leaf/%d", i)))
			ts.Insert([]byte(fmt.Sprintf("seedleaf/l%d", i)), []byte("x"))
			ss.Upsert([]byte(fmt.Sprintf("seedleaf/l%d", i)), func([]byte) []byte { return []byte("x") })
		}
		b1, _ := ts.Dump()
		b2, _ := ss.Dump()
		ts, ss = topics.NewTree(), subscriptions.NewTree()
		ts.Load(b1)
		ss.Load(b2)
	}
	nW := 8
	per := 150
	var wg sync.WaitGroup
	stop := make(chan struct{})
	for r := 0; r < 4; r++ {
		wg.Add(1)
		go func(r int) {
			defer wg.Done()
			rg := c.SubRng(fmt.Sprintf("c20/tries/r/%d", round), r)
			for {
				select {
				case <-stop:
					return
				default:
				}
				k := fmt.Sprintf("w%d/k%d", rg.Intn(nW), rg.Intn(per))
				out := [][]byte{}
				ts.Match([]byte(k), &out)
				ts.Match([]byte("w1/+"), &out)
				li := rg.Intn(400)
				ts.Match([]byte(fmt.Sprintf("seedleaf/l%d/below/a/loaded/leaf", li)), &out)
				ss.Walk([]byte(fmt.Sprintf("seedleaf/l%d/below", li)), func([]byte) {})
				ts.Count()
				ts.Iterate(func([]byte) {})
				ss.Walk([]byte(k), func([]byte) {})
				ss.Iterate(func([]byte) {})
			}
		}(r)
	}
	var ww sync.WaitGroup
	for w := 0; w < nW; w++ {
		ww.Add(1)
		go func(w int) {
			defer ww.Done()
			for i := 0; i < per; i++ {
				k := fmt.Sprintf("w%d/k%d", w, i)
				ts.Insert([]byte(k), []byte(k))
				ss.Upsert([]byte(k), func([]byte) []byte { return []byte(k) })
				// every writer also adds one mark to the value of ONE shared filter (read-modify-write in the
				// callback, as the subscription index does when several sessions hold one filter)
				ss.Upsert([]byte("hot/filter"), func(old []byte) []byte { return append(append([]byte{}, old...), byte('a'+w)) })
				if i%3 == 0 {
					ts.Remove([]byte(k))
					ss.Upsert([]byte(k), func([]byte) []byte { return nil })
				}
			}
		}(w)
	}
	ww.Wait()
	close(stop)
	wg.Wait()
	want := 0
	missing := 0
	for w := 0; w < nW; w++ {
		for i := 0; i < per; i++ {
			k := fmt.Sprintf("w%d/k%d", w, i)
			out := [][]byte{}
			ts.Match([]byte(k), &out)
			n2 := 0
			ss.Walk([]byte(k), func(b []byte) {
				if len(b) > 0 {
					n2++
				}
			})
			if i%3 == 0 {
				if len(out) != 0 || n2 != 0 {
					missing++
				}
			} else {
				want++
				if len(out) != 1 || string(out[0]) != k || n2 != 1 {
					missing++
				}
			}
		}
	}
	seedExtra := 0
	if round%2 == 1 {
		seedExtra = 401
	}
	hot := 0
	ss.Walk([]byte("hot/filter"), func(b []byte) { hot += len(b) })
	if hot != nW*per {
		c.Violation("trie-lost-update:same-key", fmt.Sprintf("tries round %d: %d writers each added %d marks to the value of one filter through Upsert's read-modify-write callback; the value holds %d marks, want %d", round, nW, per, hot, nW*per), map[string]interface{}{"round": round, "marks": hot})
	}
	c.Observe("trie_keys_written", nW*per)
	c.Case(fmt.Sprintf("tries|%d", round), true)
	if missing > 0 || ts.Count() != want+seedExtra {
		c.Violation("trie-lost-update", fmt.Sprintf("tries round %d: after %d concurrent writers on distinct keys %d keys hold the wrong value; Count=%d want %d", round, nW, missing, ts.Count(), want+seedExtra), map[string]interface{}{"round": round, "wrong_keys": missing})
	}
}

// ---- 5. replicated state ------------------------------------------------------------------------

func c20Replicated(c *fw.Ctx, round int) {
	var tick int64
	distributed.VerifSetClock(func() int64 { return 1000000 + atomic.AddInt64(&tick, 1) })
	a := kit.NewReplica(1)
	peer := kit.NewReplica(2)
	// the peer's history is prepared first; its payloads are merged into a concurrently
	rgp := c.SubRng(fmt.Sprintf("c20/repl/p/%d", round), 0)
	for i := 0; i < 150; i++ {
		sid := fmt.Sprintf("P%d", rgp.Intn(10))
		switch rgp.Intn(4) {
		case 0:
			peer.S.SessionMetadatas().Create(fmt.Sprintf("PS%d", i), "c", int64(i), nil, "mp")
		case 1:
			peer.S.Subscriptions().Create(sid, []byte(fmt.Sprintf("mp/p/%d", rgp.Intn(6))), 1)
		case 2:
			peer.S.Subscriptions().Delete(sid, []byte(fmt.Sprintf("mp/p/%d", rgp.Intn(6))))
		default:
			peer.S.Topics().Set(&packet.Publish{Header: &packet.Header{Retain: true}, Topic: []byte(fmt.Sprintf("mp/pt/%d", rgp.Intn(5))), Payload: []byte(fmt.Sprintf("p%d", i))})
		}
	}
	payloads := peer.Drain()
	snapshot := peer.S.Distributor().LocalState(false)
	var wg sync.WaitGroup
	nG := 6
	for g := 0; g < nG; g++ {
		wg.Add(1)
		go func(g int) {
			defer wg.Done()
			rg := c.SubRng(fmt.Sprintf("c20/repl/%d", round), g)
			for i := 0; i < 120; i++ {
				sid := fmt.Sprintf("A%d-%d", g, rg.Intn(4)) // distinct keys per goroutine
				switch rg.Intn(6) {
				case 0:
					a.S.SessionMetadatas().Create(fmt.Sprintf("AS%d-%d", g, i), "c", int64(i), nil, "mp")
				case 1:
					a.S.Subscriptions().Create(sid, []byte(fmt.Sprintf("mp/a/%d", rg.Intn(5))), 1)
				case 2:
					a.S.Subscriptions().Delete(sid, []byte(fmt.Sprintf("mp/a/%d", rg.Intn(5))))
				case 3:
					a.S.Topics().Set(&packet.Publish{Header: &packet.Header{Retain: true}, Topic: []byte(fmt.Sprintf("mp/t/%d/%d", g, rg.Intn(4))), Payload: []byte(fmt.Sprintf("a%d-%d", g, i))})
				case 4:
					a.S.Subscriptions().ByPattern([]byte("mp/a/1"))
					a.S.SessionMetadatas().All()
					a.S.Topics().Get([]byte("mp/#"))
				default:
					a.S.Distributor().LocalState(false)
				}
			}
		}(g)
	}
	// three deliverers merge the same peer payloads concurrently, in different orders (gossip arrives
	// from several peers at once): merges of one key race with each other
	for d := 0; d < 3; d++ {
		wg.Add(1)
		go func(d int) {
			defer wg.Done()
			order := c.SubRng(fmt.Sprintf("c20/repl/d/%d", round), d).Perm(len(payloads))
			if d == 0 {
				for i := range order {
					order[i] = i
				}
			}
			for i, idx := range order {
				a.Deliver(payloads[idx])
				if i == len(payloads)/2 {
					a.S.Distributor().MergeRemoteState(snapshot, false)
				}
			}
		}(d)
	}
	wg.Wait()
	// reference: everything a issued (its broadcasts) + everything it received
	ref := model.NewLWW()
	for _, b := range append(a.Drain(), payloads...) {
		ev, err := kit.DecodeEvent(b)
		if err == nil {
			ref.ApplyEvent(ev)
		}
	}
	if ev, err := kit.DecodeEvent(snapshot); err == nil {
		ref.ApplyEvent(ev)
	}
	c.Observe("replicated_entries", len(ref.Sessions)+len(ref.Subs)+len(ref.Topics))
	c.Case(fmt.Sprintf("replicated|%d", round), true)
	if ref.Ties > 0 {
		c.Observe("replicated_rounds_without_verdict_tie", 1)
		return
	}
	if got, want := a.Canon().String(), refCanon(ref).String(); got != want {
		c.Violation("replicated-state-lost-update", fmt.Sprintf("replicated round %d: after concurrent local changes on distinct keys and concurrent merges the node lists %s; the LWW reference of everything issued and received is %s", round, fw.Short(got, 600), fw.Short(want, 600)), map[string]interface{}{"round": round, "observed": got, "expected": want})
	}
	_ = api.Subscription{}
}

// c20MergeRace: many goroutines merge updates of ONE retained topic, ONE session and ONE subscription
// concurrently, each in its own order; whatever the interleaving the survivor must be the update with
// the greatest timestamp.
func c20MergeRace(c *fw.Ctx, round int) {
	bad := 0
	var witness string
	rounds := c.Pick(120, 500)
	for r := 0; r < rounds; r++ {
		a := kit.NewReplica(1)
		k := 8
		payloads := make([][]byte, k)
		for i := 0; i < k; i++ {
			ts := int64(100 + i)
			ev := &api.StateBroadcastEvent{
				RetainedMessages: []*api.RetainedMessage{{Publish: &packet.Publish{Header: &packet.Header{}, Topic: []byte("mp/hot"), Payload: []byte(fmt.Sprintf("v%d", i))}, LastAdded: ts}},
				Subscriptions:    []*api.Subscription{{SessionID: "s", Pattern: []byte("mp/hot"), Peer: 2, QoS: int32(i % 3), LastAdded: ts}},
				SessionMetadatas: []*api.SessionMetadatas{{SessionID: "s", ClientID: "c", Peer: 2, MountPoint: "mp", ConnectedAt: ts, LastAdded: ts}},
			}
			payloads[i] = kit.EncodeEvent(ev)
		}
		// every update is delivered exactly once, each by its own goroutine, all at the same moment: a
		// lost update cannot be healed by a later re-delivery. Odd rounds split the three kinds into
		// separate payloads so that merges of one kind are not staggered by the locks of the others.
		var wg sync.WaitGroup
		startCh := make(chan struct{})
		for g := 0; g < k; g++ {
			mine := [][]byte{payloads[g]}
			if r%2 == 1 {
				ev, _ := kit.DecodeEvent(payloads[g])
				mine = [][]byte{
					kit.EncodeEvent(&api.StateBroadcastEvent{RetainedMessages: ev.RetainedMessages}),
					kit.EncodeEvent(&api.StateBroadcastEvent{Subscriptions: ev.Subscriptions}),
					kit.EncodeEvent(&api.StateBroadcastEvent{SessionMetadatas: ev.SessionMetadatas}),
				}
			}
			wg.Add(1)
			go func(mine [][]byte) {
				defer wg.Done()
				<-startCh
				for _, p := range mine {
					a.Deliver(p)
				}
			}(mine)
		}
		close(startCh)
		wg.Wait()
		got := a.Canon().String()
		want := fmt.Sprintf("sessions{s client=c peer=2 mp=mp at=%d lwt=- added=%d} subscriptions{s mp/hot peer=2 qos=%d added=%d} retained{mp/hot=%q qos=0 added=%d}", 100+k-1, 100+k-1, (k-1)%3, 100+k-1, fmt.Sprintf("v%d", k-1), 100+k-1)
		if got != want {
			bad++
			if witness == "" {
				witness = fmt.Sprintf("got %s want %s", got, want)
			}
		}
	}
	c.Observe("merge_race_rounds", rounds)
	c.Case(fmt.Sprintf("merge-race|%d", round), true)
	if bad > 0 {
		c.Violation("replicated-state-lost-update:concurrent-merges", fmt.Sprintf("merge-race round %d: in %d of %d rounds the newest of 8 concurrently merged updates of one key did not survive; e.g. %s", round, bad, rounds, fw.Short(witness, 500)), map[string]interface{}{"round": round, "bad_rounds": bad, "example": witness})
	}
}

// c20HotTopic: a node's own retained writes on one topic race (a) with merges of a peer's updates of
// the same topic that are stamped ahead of the local clock and (b) with each other. Whatever the
// interleaving, a follower that receives every broadcast the node queued plus the peer's updates must
// list what the node lists (the node must not keep an entry every other replica rejects).
func c20HotTopic(c *fw.Ctx, round int) {
	bad := 0
	var witness string
	rounds := c.Pick(150, 600)
	for r := 0; r < rounds; r++ {
		var tick int64
		distributed.VerifSetClock(func() int64 { return 5000000 + atomic.AddInt64(&tick, 1) })
		a := kit.NewReplica(1)
		peer := [][]byte{}
		for i := 0; i < 3; i++ {
			// ahead of a's clock by far
			peer = append(peer, kit.EncodeEvent(&api.StateBroadcastEvent{RetainedMessages: []*api.RetainedMessage{{
				Publish: &packet.Publish{Header: &packet.Header{}, Topic: []byte("mp/hot"), Payload: []byte(fmt.Sprintf("peer%d", i))}, LastAdded: 9000000 + int64(i)}}}))
		}
		var wg sync.WaitGroup
		start := make(chan struct{})
		for g := 0; g < 3; g++ {
			wg.Add(1)
			go func(g int) {
				defer wg.Done()
				<-start
				if r%2 == 0 || g > 0 {
					a.S.Topics().Set(&packet.Publish{Header: &packet.Header{Retain: true}, Topic: []byte("mp/hot"), Payload: []byte(fmt.Sprintf("local%d", g))})
				}
				if g == 0 && r%2 == 1 {
					a.S.Topics().Delete([]byte("mp/hot"))
				}
			}(g)
		}
		wg.Add(1)
		go func() {
			defer wg.Done()
			<-start
			for _, p := range peer {
				a.Deliver(p)
			}
		}()
		close(start)
		wg.Wait()
		f := kit.NewReplica(2)
		own := a.Drain()
		for _, p := range peer {
			f.Deliver(p)
		}
		for _, p := range own {
			f.Deliver(p)
		}
		ref := model.NewLWW()
		for _, p := range append(append([][]byte{}, peer...), own...) {
			if ev, err := kit.DecodeEvent(p); err == nil {
				ref.ApplyEvent(ev)
			}
		}
		if ref.Ties > 0 {
			continue
		}
		if got, want := a.Canon().String(), f.Canon().String(); got != want {
			bad++
			if witness == "" {
				witness = fmt.Sprintf("node lists %s, a follower fed with the same updates lists %s", got, want)
			}
		}
	}
	c.Observe("hot_topic_rounds", rounds)
	c.Case(fmt.Sprintf("hot-topic|%d", round), true)
	if bad > 0 {
		c.Violation("replicated-state-lost-update:local-write-vs-merge", fmt.Sprintf("hot-topic round %d: in %d of %d rounds %s", round, bad, rounds, fw.Short(witness, 500)), map[string]interface{}{"round": round, "bad_rounds": bad, "example": witness})
	}
}

// ---- 6. a session's filter list -----------------------------------------------------------------

func c20SessionTopics(c *fw.Ctx, round int) {
	a, _ := net.Pipe()
	s, _ := sessions.NewSession("s", "mp", "tcp", a, &packet.Connect{ClientId: []byte("c"), KeepaliveTimer: 30})
	var wg sync.WaitGroup
	nG := 6
	for g := 0; g < nG; g++ {
		wg.Add(1)
		go func(g int) {
			defer wg.Done()
			for i := 0; i < 300; i++ {
				t := []byte(fmt.Sprintf("mp/g%d/%d", g, i%7))
				s.AddTopic(t)
				for _, x := range s.GetTopics() {
					_ = len(x)
				}
				if i%2 == 0 {
					s.RemoveTopic(t)
				}
			}
		}(g)
	}
	wg.Wait()
	got := []string{}
	for _, t := range s.GetTopics() {
		got = append(got, string(t))
	}
	sort.Strings(got)
	want := []string{}
	for g := 0; g < nG; g++ {
		// per goroutine: i odd adds stay; the last operation on each of the 7 slots decides
		last := map[int]bool{}
		for i := 0; i < 300; i++ {
			last[i%7] = i%2 != 0
		}
		for k, present := range last {
			if present {
				want = append(want, fmt.Sprintf("mp/g%d/%d", g, k))
			}
		}
	}
	sort.Strings(want)
	c.Observe("session_filter_ops", nG*300)
	c.Case(fmt.Sprintf("session-topics|%d", round), true)
	if fmt.Sprint(got) != fmt.Sprint(want) {
		c.Violation("session-filter-list-lost-update", fmt.Sprintf("session filter list round %d: got %v want %v", round, got, want), map[string]interface{}{"round": round})
	}
}

// ---- 7. whole broker ---------------------------------------------------------------------------------

func c20Broker(c *fw.Ctx, round int) {
	fw.LogCase("C20 broker storm %d", round)
	cl := kit.NewCluster(kit.WorkDir("c20"))
	defer cl.Close()
	n1, err := cl.AddNode(kit.NodeOpts{ID: 1})
	if err != nil {
		c.Inconclusive("cannot start node: " + err.Error())
		return
	}
	n2, err := cl.AddNode(kit.NodeOpts{ID: 2})
	if err != nil {
		c.Inconclusive("cannot start node: " + err.Error())
		return
	}
	cl.StartPump(2 * time.Millisecond)
	stop := make(chan struct{})
	var bg sync.WaitGroup
	// forced sweeps and push/pull exchanges while clients work
	bg.Add(1)
	go func() {
		defer bg.Done()
		far := time.Now()
		for {
			select {
			case <-stop:
				return
			case <-time.After(15 * time.Millisecond):
			}
			far = far.Add(time.Hour)
			n1.Ack.Expire(far)
			cl.PushPull(n2, n1)
			cl.PushPull(n1, n2)
		}
	}()
	// steady subscribers (survivors) on node 1
	nSub := 3
	subs := []*kit.Client{}
	subQos := []int{}
	for i := 0; i < nSub; i++ {
		cc, err := n1.MustConnect(kit.ConnectOpts{ClientID: fmt.Sprintf("steady%d", i), KeepAlive: 600, Clean: true})
		if err != nil {
			c.Inconclusive("connect: " + err.Error())
			close(stop)
			bg.Wait()
			return
		}
		defer cc.Close()
		cc.Sub1("storm/#", i%3)
		subs = append(subs, cc)
		subQos = append(subQos, i%3)
	}
	var mu sync.Mutex
	sent := []*c02Sent{}
	var wg sync.WaitGroup
	nClients := 30
	for k := 0; k < nClients; k++ {
		wg.Add(1)
		go func(k int) {
			defer wg.Done()
			node := n1
			if k%3 == 0 {
				node = n2
			}
			rg := c.SubRng(fmt.Sprintf("c20/broker/%d", round), k)
			for life := 0; life < 2; life++ {
				cc, err := node.MustConnect(kit.ConnectOpts{ClientID: fmt.Sprintf("storm-%d", k), KeepAlive: 600, Clean: true})
				if err != nil {
					return
				}
				cc.Sub1(fmt.Sprintf("storm/%d/+", k%5), rg.Intn(3))
				for i := 0; i < 6; i++ {
					qos := 1 + rg.Intn(2)
					s := &c02Sent{tag: fmt.Sprintf("st%d-%d-%d-%d", round, k, life, i), topic: fmt.Sprintf("storm/%d/x", rg.Intn(5)), qos: qos}
					pl := c02Payload(s.tag, rg.Intn(300))
					s.sum, s.size = sha1sum(pl), len(pl)
					// the forced sweeps also expire inbound QoS 2 handshakes that are waiting for PUBREL: such a
					// publish is simply never acknowledged (and then not required by the oracle) - do not wait long
					acked, _ := cc.Publish(s.topic, pl, qos, false, 3*time.Second)
					s.acked = acked
					mu.Lock()
					sent = append(sent, s)
					mu.Unlock()
				}
				if rg.Intn(2) == 0 {
					cc.Send(kit.EncDisconnect())
					cc.WaitClosed(5 * time.Second)
				}
				cc.Close()
			}
		}(k)
	}
	wg.Wait()
	close(stop)
	bg.Wait()
	cl.StopPump()
	cl.Quiesce()
	pub, err := n1.MustConnect(kit.ConnectOpts{ClientID: "storm-end", KeepAlive: 600, Clean: true})
	if err != nil {
		c.Inconclusive("connect: " + err.Error())
		return
	}
	defer pub.Close()
	if !c02Barrier(c, fmt.Sprintf("storm%d", round), pub, subs, "storm/end", 1000+round) {
		return
	}
	// only publishes from node 1 clients are guaranteed to know the steady subscribers at once; node 2 learns them by gossip,
	// which the pump delivers within milliseconds, but a publish acknowledged before that is legitimately not forwarded
	own := []*c02Sent{}
	for _, s := range sent {
		var k int
		fmt.Sscanf(s.tag, "st"+fmt.Sprint(round)+"-%d-", &k)
		if k%3 != 0 {
			own = append(own, s)
		}
	}
	c02Verify(c, fmt.Sprintf("storm%d", round), subs, subQos, own, "storm-lost")
	c.Observe("storm_publishes", len(sent))
	c.Case(fmt.Sprintf("storm|%d", round), true)
}

func runC20(c *fw.Ctx) {
	c.Rule = "built with the Go race detector (GORACE halt_on_error=0, reports collected by the parent and de-duplicated by the pair of outermost non-runtime frames). Repeated randomized stress on all cores, few keys, many goroutines: (1) session registry Create/Get/Delete/ListSessions checked with porcupine against a per-key register; (2) identifier pool Get/Put with a shadow set updated under the harness's lock; (3) in-flight table Insert/Ack/Expire on shared keys with a concurrent sweeper, exactly one outcome per registration; (4) both tries, writers on distinct keys and readers on all (also on stores rebuilt by Load), every distinct-key effect present afterwards; (5) replicated state: local mutators on distinct keys + NotifyMsg/MergeRemoteState/LocalState concurrently, final listing = LWW reference; (5b) one hot retained topic written locally by three goroutines while a peer's ahead-stamped updates of it are merged, node vs follower; (6) a session's filter list AddTopic/RemoveTopic/GetTopics; (7) two broker nodes with 30 clients connecting, subscribing, publishing QoS 1/2, disconnecting, while forced expiry sweeps and push/pull exchanges run; conservation oracle of C02 on the steady subscribers; (8) the lifecycle / takeover / will / tenant / retransmission / cross-node scenarios of C11, C12, C13, C17, C03 and C14 re-run under the detector (their own oracles are not judged here). Any race report is a violation. distinct = (workload, round); non-trivial = all"
	c.Assume("the race detector only sees interleavings the stress produced, and only Go synchronisation")
	c.Extra("gomaxprocs", runtime.GOMAXPROCS(0))
	rounds := c.Pick(8, 40)
	blocked := false
	timed := func(name string, f func()) {
		if blocked {
			return
		}
		t0 := time.Now()
		// each of these workloads takes seconds; one that has not returned after ten minutes is stuck on a
		// lock that was never released (which the race detector does not report)
		if !c.Guard("workload:"+name, time.Duration(c.Pick(120, 600))*time.Second, func() string { return name }, f) {
			blocked = true
		}
		c.Observe("ms_"+name, int(time.Since(t0).Milliseconds()))
	}
	for r := 0; r < rounds; r++ {
		r := r
		timed("registry", func() { c20Registry(c, r) })
		timed("pool", func() { c20Pool(c, r) })
		timed("inflight", func() { c04Concurrent(c, 100+r) })
		timed("tries", func() { c20Tries(c, r) })
		timed("replicated", func() { c20Replicated(c, r) })
		timed("merge_race", func() { c20MergeRace(c, r) })
		timed("double_delete", func() { c20DoubleDelete(c, r) })
		timed("hot_topic", func() { c20HotTopic(c, r) })
		timed("session_topics", func() { c20SessionTopics(c, r) })
	}
	for r := 0; r < c.Pick(4, 16); r++ {
		r := r
		timed("broker_storm", func() { c20Broker(c, r) })
	}
	timed("fresh_second", func() { c04FreshSecond(c, 20) })
	// (8) the session-lifecycle, takeover, will, tenant, retransmission and cross-node scenarios of the
	// other checks, re-run here only so that the race detector sees those code paths (conn.go, packets.go,
	// nodes.go, grpc.go); their own oracles report to a scratch context - those verdicts belong to C11-C17
	aux := fw.NewCtx("C20-aux", c.Tier, c.Seed)
	tAux := time.Now()
	{
		var wg sync.WaitGroup
		run := func(f func()) { wg.Add(1); go func() { defer wg.Done(); f() }() }
		causes := []string{"disconnect", "close", "second-connect", "garbage", "displaced-same-node", "displaced-other-node", "node-failure", "silence"}
		for i, cause := range causes {
			i, cause := i, cause
			run(func() {
				c11CleanupScenario(aux, 9000+i, c11Cleanup{cause: cause, nNodes: 2, host: i % 2, filters: []string{"c11/a", "c11/+/b"}, unsub: i % 2})
			})
		}
		for i := 0; i < c.Pick(4, 40); i++ {
			i := i
			run(func() {
				c12Run(aux, 9000+i, c12Scenario{nNodes: 2, places: []int{0, 1, i % 2}, oldEvent: []string{"ping", "close"}, when: []string{"before-gossip", "after-gossip"}})
			})
			run(func() { c17Run(aux, 9000+i) })
			run(func() { c03Scenario(aux, 9000+i) })
			run(func() { c14Scenario(aux, 9000+i) })
		}
		for i, cause := range []string{"close", "garbage", "node-failure", "disconnect"} {
			i, cause := i, cause
			run(func() {
				c13Run(aux, 9000+i, c13Scenario{cause: cause, nNodes: 2, host: i % 2, willQos: i % 3, retain: i%2 == 0, willTopic: "w/a/x", filters: []string{"w/a/x", "w/#"}})
			})
		}
		// round 4 additions: acknowledgements racing sweeps, fan-out identifiers, retained replay with
		// re-SUBSCRIBE, a CONNACK that cannot be written
		run(func() { c03AckStormN(aux, 9000, c.Pick(3, 16)) })
		run(func() { c06FanOut(aux) })
		run(func() { c11ConnackLost(aux, 9000, 2) })
		for i := 0; i < c.Pick(2, 12); i++ {
			i := i
			run(func() { c07Scenario(aux, 9000+i) })
		}
		if !c.Guard("lifecycle-scenarios", time.Duration(c.Pick(180, 900))*time.Second, func() string {
			return "session lifecycle / take-over / will / tenant scenarios on broker nodes (each takes seconds)"
		}, wg.Wait) {
			return
		}
		c.Observe("ms_lifecycle_scenarios", int(time.Since(tAux).Milliseconds()))
		c.Observe("lifecycle_scenarios_under_race_detector", 8+4+4*c.Pick(4, 40)+3+c.Pick(2, 12))
		c.Observe("lifecycle_scenario_oracle_violations_not_counted_here", aux.Violations())
		if aux.Violations() > 0 {
			c.Extra("lifecycle_scenario_oracle_reports", aux.ViolationSummaries())
		}
	}
	c.Sample(map[string]interface{}{"workload": "registry", "goroutines": 8, "ops_per_goroutine": 12, "keys": 3})
	c.Sample(map[string]interface{}{"workload": "broker storm", "clients": 30, "nodes": 2})
	c.Floor("registry_histories_linearizable", 1)
	c.Floor("storm_publishes", 100)
}

// c20DoubleDelete: the record of one session is removed by two goroutines at once (the accepting setup
// of a take-over and the old session's own teardown do exactly that), unknown sessions are removed too,
// while other sessions are created. Every call returns, and the listing is what the calls say.
func c20DoubleDelete(c *fw.Ctx, round int) {
	var tick int64
	distributed.VerifSetClock(func() int64 { return 3000000 + atomic.AddInt64(&tick, 1) })
	a := kit.NewReplica(1)
	const n = 200
	for i := 0; i < n; i++ {
		a.S.SessionMetadatas().Create(fmt.Sprintf("dd-%d", i), fmt.Sprintf("c%d", i), int64(i), nil, "mp")
	}
	var wg sync.WaitGroup
	for g := 0; g < 2; g++ {
		wg.Add(1)
		go func(g int) {
			defer wg.Done()
			for i := 0; i < n; i += 2 {
				a.S.SessionMetadatas().Delete(fmt.Sprintf("dd-%d", i))
				a.S.SessionMetadatas().Delete(fmt.Sprintf("never-existed-%d-%d", g, i))
			}
		}(g)
	}
	wg.Add(1)
	go func() {
		defer wg.Done()
		for i := 0; i < n; i++ {
			a.S.SessionMetadatas().Create(fmt.Sprintf("late-%d", i), fmt.Sprintf("lc%d", i), int64(i), nil, "mp")
			a.S.SessionMetadatas().ByClientID("mp", fmt.Sprintf("c%d", i))
		}
	}()
	wg.Wait()
	got := len(a.S.SessionMetadatas().All())
	c.Case(fmt.Sprintf("double-delete|%d", round), true)
	c.Observe("double_delete_rounds", 1)
	if want := n/2 + n; got != want {
		c.Violation("replicated-state-lost-update:double-delete", fmt.Sprintf("double-delete round %d: %d sessions created, %d of them removed (each by two goroutines at once): %d listed, want %d", round, 2*n, n/2, got, want), nil)
	}
}
