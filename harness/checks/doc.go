// Package checks holds one workload generator + monitor per property.
package checks
