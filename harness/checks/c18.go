package checks

import (
	"bytes"
	"encoding/hex"
	"fmt"
	"math/rand"
	"strings"
	"sync"
	"sync/atomic"
	"time"

	"wv/fw"
	"wv/kit"
)

// C18 — no client input can crash the broker or stall other clients.
//
// The check runs in a child process (as every check does): a panic anywhere in
// the broker kills the child, the parent reports it with the last streams that
// were logged (hex) before being sent.

func init() {
	fw.Register("C18", fw.Spec{Run: runC18})
}

type c18Stream struct {
	name  string
	bytes []byte
}

func c18Packets() map[string][]byte {
	return map[string][]byte{
		"connect":      kit.EncConnect(kit.ConnectOpts{ClientID: "hostile", KeepAlive: 30, Clean: true}),
		"connect-will": kit.EncConnect(kit.ConnectOpts{ClientID: "hostile-w", KeepAlive: 30, Clean: true, Will: true, WillTopic: "h/will", WillPayload: []byte("bye"), WillQos: 1}),
		"connect-cred": kit.EncConnect(kit.ConnectOpts{ClientID: "hostile-c", KeepAlive: 30, Clean: true, User: "u", Pass: "p"}),
		"connect-v3":   kit.EncConnect(kit.ConnectOpts{ClientID: "hostile-3", KeepAlive: 30, Clean: true, ProtoName: "MQIsdp", ProtoLevel: 3}),
		"subscribe1":   kit.EncSubscribe(1, []string{"h/a"}, []int{1}),
		"subscribe3":   kit.EncSubscribe(2, []string{"h/a", "h/+/b", "#"}, []int{0, 1, 2}),
		"publish0":     kit.EncPublish("h/a", []byte("p0"), 0, false, false, 0),
		"publish1":     kit.EncPublish("h/a", []byte("p1"), 1, false, false, 10),
		"publish2":     kit.EncPublish("h/a", []byte("p2"), 2, true, false, 11),
		"puback":       kit.EncPubAck(10),
		"pubrec":       kit.EncPubRec(11),
		"pubrel":       kit.EncPubRel(11),
		"pubcomp":      kit.EncPubComp(11),
		"unsubscribe":  kit.EncUnsubscribe(3, []string{"h/a"}),
		"pingreq":      kit.EncPingReq(),
		"disconnect":   kit.EncDisconnect(),
		"connack":      {0x20, 0x02, 0x00, 0x00},
		"suback":       {0x90, 0x03, 0x00, 0x01, 0x00},
		"unsuback":     {0xb0, 0x02, 0x00, 0x01},
		"pingresp":     {0xd0, 0x00},
		"reserved0":    {0x00, 0x00},
		"reserved15":   {0xf0, 0x00},
	}
}

func cat(parts ...[]byte) []byte {
	out := []byte{}
	for _, p := range parts {
		out = append(out, p...)
	}
	return out
}

func c18Corpus(rg *rand.Rand, quick bool) []c18Stream {
	P := c18Packets()
	out := []c18Stream{}
	add := func(name string, b []byte) { out = append(out, c18Stream{name, b}) }
	after := []string{"subscribe1", "subscribe3", "publish0", "publish1", "publish2", "puback", "pubrec", "pubrel", "pubcomp", "unsubscribe", "pingreq", "disconnect", "connack", "suback", "unsuback", "pingresp", "reserved0", "reserved15", "connect"}
	connects := []string{"connect", "connect-will", "connect-cred", "connect-v3"}
	// valid and out-of-order sequences
	for _, cn := range connects {
		add(cn, P[cn])
		for _, a := range after {
			add(cn+"+"+a, cat(P[cn], P[a]))
		}
	}
	for _, a := range after {
		add("noconnect:"+a, P[a])
	}
	full := cat(P["connect-will"], P["subscribe3"], P["publish1"], P["publish2"], P["pubrel"], P["puback"], P["unsubscribe"], P["pingreq"], P["disconnect"])
	add("full-session", full)
	// valid multi-packet sessions: SUBSCRIBE / UNSUBSCRIBE / PUBLISH / acknowledgement packets over filters of
	// different lengths, repeated and out of order (every one of them legal after CONNECT)
	{
		fs := []string{"h/a", "h/bb", "h/+/b", "#", "h/ccc/d", "h"}
		nSess := 150
		if !quick {
			nSess = 1500
		}
		for i := 0; i < nSess; i++ {
			parts := [][]byte{P[connects[rg.Intn(2)]]}
			names := []string{}
			id := 20
			for k := 0; k < 3+rg.Intn(7); k++ {
				id++
				f := fs[rg.Intn(len(fs))]
				switch rg.Intn(6) {
				case 0, 1:
					parts = append(parts, kit.EncSubscribe(id, []string{f}, []int{rg.Intn(3)}))
					names = append(names, "sub "+f)
				case 2:
					g := fs[rg.Intn(len(fs))]
					parts = append(parts, kit.EncSubscribe(id, []string{f, g}, []int{rg.Intn(3), rg.Intn(3)}))
					names = append(names, "sub "+f+","+g)
				case 3, 4:
					parts = append(parts, kit.EncUnsubscribe(id, []string{f}))
					names = append(names, "unsub "+f)
				default:
					// publishes, retained publishes and retained clears on prefix-related topics
					t := []string{"h/a", "h", "h/a/b", "h/bb"}[rg.Intn(4)]
					switch rg.Intn(3) {
					case 0:
						parts = append(parts, kit.EncPublish(t, []byte("x"), rg.Intn(3), false, false, id))
						names = append(names, "publish "+t)
					case 1:
						parts = append(parts, kit.EncPublish(t, []byte("r"), rg.Intn(2), true, false, id))
						names = append(names, "retain "+t)
					default:
						parts = append(parts, kit.EncPublish(t, nil, rg.Intn(2), true, false, id))
						names = append(names, "clear "+t)
					}
				}
			}
			add(fmt.Sprintf("session:%v", names), cat(parts...))
		}
	}
	// truncation at every byte offset
	for _, base := range [][]byte{full, cat(P["connect-cred"], P["subscribe1"], P["publish2"]), P["connect-will"]} {
		for i := 0; i <= len(base); i++ {
			add(fmt.Sprintf("truncate@%d/%d", i, len(base)), base[:i])
		}
	}
	// per packet: type nibble and flag nibble sweeps, remaining-length corruption
	second := []string{"subscribe1", "subscribe3", "publish0", "publish1", "publish2", "puback", "pubrel", "unsubscribe", "pingreq"}
	for _, name := range second {
		pkt := P[name]
		for t := 0; t < 16; t++ {
			m := append([]byte{}, pkt...)
			m[0] = byte(t<<4) | m[0]&0x0f
			add(fmt.Sprintf("%s:type=%d", name, t), cat(P["connect"], m))
			if t%3 == 0 {
				add(fmt.Sprintf("noconnect:%s:type=%d", name, t), m)
			}
		}
		for f := 0; f < 16; f++ {
			m := append([]byte{}, pkt...)
			m[0] = m[0]&0xf0 | byte(f)
			add(fmt.Sprintf("%s:flags=%d", name, f), cat(P["connect"], m))
		}
		body := pkt[2:] // all corpus packets have a 1-byte remaining length
		for _, rl := range [][]byte{{0x00}, {byte(len(body) - 1)}, {byte(len(body) + 1)}, {0x7f}, {0x80, 0x01}, {0xff, 0x7f}, {0xff, 0xff, 0x03}, {0x80, 0x80, 0x80, 0x01}, {0xff, 0xff, 0xff, 0xff, 0x01}, {0x80, 0x80, 0x80, 0x80, 0x80, 0x01}, {0x80}} {
			if len(body) == 0 && rl[0] == 0xff && len(rl) == 1 {
				continue
			}
			m := cat([]byte{pkt[0]}, rl, body)
			add(fmt.Sprintf("%s:remlen=%x", name, rl), cat(P["connect"], m))
		}
	}
	// first packet (CONNECT) variants
	for _, cn := range connects {
		pkt := P[cn]
		body := pkt[2:]
		for _, rl := range [][]byte{{0x00}, {0x01}, {0x02}, {0x05}, {byte(len(body) - 1)}, {byte(len(body) + 3)}, {0xff, 0xff, 0xff, 0xff, 0x01}, {0x80, 0x80, 0x80, 0x80, 0x80}, {0xff, 0xff, 0x03}} {
			add(fmt.Sprintf("%s:remlen=%x", cn, rl), cat([]byte{pkt[0]}, rl, body))
		}
		for f := 0; f < 16; f++ {
			m := append([]byte{}, pkt...)
			m[0] = m[0]&0xf0 | byte(f)
			add(fmt.Sprintf("%s:flags=%d", cn, f), m)
		}
		// length prefixes beyond the packet, every 2-byte prefix position approximated by byte sweeps
		for i := 2; i < len(pkt); i++ {
			for _, v := range []byte{0x00, 0xff, 0x7f, 0x80} {
				m := append([]byte{}, pkt...)
				if m[i] != v {
					m[i] = v
					add(fmt.Sprintf("%s:byte[%d]=%02x", cn, i, v), m)
				}
			}
		}
	}
	// specific protocol violations
	add("publish-qos3", cat(P["connect"], []byte{0x36, 0x07, 0x00, 0x03, 'h', '/', 'a', 0x00, 0x01}))
	add("subscribe-empty-list", cat(P["connect"], []byte{0x82, 0x02, 0x00, 0x01}))
	add("subscribe-no-qos-byte", cat(P["connect"], []byte{0x82, 0x07, 0x00, 0x01, 0x00, 0x03, 'h', '/', 'a'}))
	add("subscribe-qos3", cat(P["connect"], kit.EncSubscribe(4, []string{"h/a"}, []int{3})))
	add("unsubscribe-empty-list", cat(P["connect"], []byte{0xa2, 0x02, 0x00, 0x01}))
	add("publish1-id0", cat(P["connect"], kit.EncPublish("h/a", []byte("x"), 1, false, false, 0)))
	add("publish2-id0", cat(P["connect"], kit.EncPublish("h/a", []byte("x"), 2, false, false, 0)))
	add("puback-id0", cat(P["connect"], kit.EncPubAck(0)))
	add("pubrel-id0", cat(P["connect"], kit.EncPubRel(0)))
	add("publish-empty-topic", cat(P["connect"], kit.EncPublish("", []byte("x"), 0, false, false, 0)))
	add("publish-wildcard-topic", cat(P["connect"], kit.EncPublish("h/#", []byte("x"), 1, true, false, 5)))
	add("subscribe-empty-filter", cat(P["connect"], kit.EncSubscribe(5, []string{""}, []int{0})))
	add("puback-nobody", cat(P["connect"], []byte{0x40, 0x00}))
	add("puback-nobody-noconnect", []byte{0x40, 0x00})
	add("pubrec-nobody", cat(P["connect"], []byte{0x50, 0x00}))
	add("pubrel-1byte", cat(P["connect"], []byte{0x62, 0x01, 0x00}))
	add("pubcomp-nobody", cat(P["connect"], []byte{0x70, 0x00}))
	add("subscribe-nobody", cat(P["connect"], []byte{0x82, 0x00}))
	add("unsubscribe-nobody", cat(P["connect"], []byte{0xa2, 0x00}))
	add("publish-nobody", cat(P["connect"], []byte{0x30, 0x00}))
	add("publish-topiclen-beyond", cat(P["connect"], []byte{0x32, 0x04, 0x00, 0x09, 'h', '/'}))
	add("publish1-no-id", cat(P["connect"], []byte{0x32, 0x05, 0x00, 0x03, 'h', '/', 'a'}))
	add("connect-empty-body", []byte{0x10, 0x00})
	add("connect-short", []byte{0x10, 0x04, 0x00, 0x04, 'M', 'Q'})
	add("connect-no-flags", []byte{0x10, 0x07, 0x00, 0x04, 'M', 'Q', 'T', 'T', 0x04})
	add("connect-no-keepalive", []byte{0x10, 0x08, 0x00, 0x04, 'M', 'Q', 'T', 'T', 0x04, 0x02})
	add("connect-bad-level", kit.EncConnect(kit.ConnectOpts{ClientID: "x", KeepAlive: 10, ProtoLevel: 9}))
	add("connect-bad-name", kit.EncConnect(kit.ConnectOpts{ClientID: "x", KeepAlive: 10, ProtoName: "XQTT"}))
	add("connect-empty-clientid", kit.EncConnect(kit.ConnectOpts{ClientID: "", KeepAlive: 10, Clean: true}))
	add("connect-will-flag-no-will", func() []byte {
		b := kit.EncConnect(kit.ConnectOpts{ClientID: "x", KeepAlive: 10, Clean: true})
		b[9] |= 0x04 // will flag without will fields
		return b
	}())
	add("connect-user-flag-no-user", func() []byte {
		b := kit.EncConnect(kit.ConnectOpts{ClientID: "x", KeepAlive: 10, Clean: true})
		b[9] |= 0xc0
		return b
	}())
	add("just-zero-bytes", make([]byte, 64))
	add("just-ff-bytes", func() []byte {
		b := make([]byte, 64)
		for i := range b {
			b[i] = 0xff
		}
		return b
	}())
	add("empty-stream", nil)
	// seeded havoc over valid sequences
	nh := 600
	if !quick {
		nh = 20000
	}
	bases := [][]byte{full, cat(P["connect"], P["subscribe3"], P["publish2"], P["pubrel"]), cat(P["connect-cred"], P["publish1"], P["unsubscribe"]), P["connect-will"]}
	for i := 0; i < nh; i++ {
		m := append([]byte{}, bases[rg.Intn(len(bases))]...)
		for k := 0; k < 1+rg.Intn(4); k++ {
			switch rg.Intn(4) {
			case 0:
				m[rg.Intn(len(m))] = byte(rg.Intn(256))
			case 1:
				j := rg.Intn(len(m))
				m = append(m[:j], append([]byte{byte(rg.Intn(256))}, m[j:]...)...)
			case 2:
				j := rg.Intn(len(m))
				m = append(m[:j], m[j+1:]...)
			case 3:
				m[rg.Intn(len(m))] ^= 1 << uint(rg.Intn(8))
			}
			if len(m) == 0 {
				m = []byte{0}
			}
		}
		add(fmt.Sprintf("havoc#%d", i), m)
	}
	return out
}

func runC18(c *fw.Ctx) {
	c.Rule = "corpus of client byte streams, each sent on a fresh connection to a broker node that also serves two witness clients: valid packet sequences (4 CONNECT variants x 19 following packets, packets without CONNECT, a full session, 150 / 1500 seeded sessions of 3-9 SUBSCRIBE/UNSUBSCRIBE/PUBLISH packets over filters of different lengths, repeated and out of order), truncation of three sequences at EVERY byte offset, type-nibble and flag-nibble sweeps and 11 remaining-length corruptions (too small/large, multi-byte, 5- and 6-byte, maximal) of 9 packet kinds after CONNECT, CONNECT remaining-length/flag/byte sweeps, QoS 3, empty topic lists, identifier 0, empty bodies, length prefixes beyond the packet, and seeded byte-level havoc (quick 600, thorough 20000). Every stream's hex is logged before it is sent. 24 connections that stay silent (or send half a CONNECT) are held open throughout and a new client connects at the end. 44 well-behaved clients send valid packets of different types and lengths in three pieces each, concurrently, and must all be answered; acknowledgements are sent while their deadlines are being swept. Oracle: the broker process survives (a crash kills the child and is reported by the parent with the last streams), both witnesses are never disconnected, answer PINGREQ after every batch of streams and complete a tagged QoS 1 publish/receive round trip every 40 streams and at the end. distinct = stream bytes; non-trivial = stream differs from a valid sequence"
	c.Assume("a client that stops reading is out of scope (the property is about bytes a client sends)")
	rg := c.SubRng("c18", 0)
	corpus := c18Corpus(rg, c.Quick())
	cl := kit.NewCluster(kit.WorkDir("c18"))
	defer cl.Close()
	n, err := cl.AddNode(kit.NodeOpts{ID: 1})
	if err != nil {
		c.Inconclusive("cannot start node: " + err.Error())
		return
	}
	wsub, err := n.MustConnect(kit.ConnectOpts{ClientID: "witness-sub", KeepAlive: 3600, Clean: true})
	if err != nil {
		c.Inconclusive("connect: " + err.Error())
		return
	}
	defer wsub.Close()
	wpub, err := n.MustConnect(kit.ConnectOpts{ClientID: "witness-pub", KeepAlive: 3600, Clean: true})
	if err != nil {
		c.Inconclusive("connect: " + err.Error())
		return
	}
	defer wpub.Close()
	if err := wsub.Sub1("witness/#", 1); err != nil {
		c.Inconclusive("subscribe: " + err.Error())
		return
	}
	rt := 0
	recent := []string{}
	var recentMu sync.Mutex
	roundTrip := func() bool {
		rt++
		tag := fmt.Sprintf("rt-%d", rt)
		for attempt := 0; attempt < 2; attempt++ {
			if wsub.Closed() || wpub.Closed() {
				break
			}
			// also feed the hostile sessions' own subscriptions (h/a, h/+/b, #) so that they hold in-flight deliveries
			wpub.Publish("h/a", []byte("to-hostile-"+tag), 1, false, 60*time.Second)
			acked, _ := wpub.Publish("witness/t", []byte(tag), 1, false, 60*time.Second)
			if acked {
				if _, _, err := wsub.WaitFor(0, 60*time.Second, func(e kit.Event) bool { return e.Pkt.Type == kit.PUBLISH && string(e.Pkt.Payload) == tag }); err == nil {
					c.Observe("witness_round_trips", 1)
					return true
				}
			}
		}
		recentMu.Lock()
		r := append([]string{}, recent...)
		recentMu.Unlock()
		kind := "stalled"
		if wsub.Closed() || wpub.Closed() {
			kind = "witness-disconnected"
		}
		c.Violation(kind, fmt.Sprintf("after hostile streams the witness clients could not complete a publish/receive round trip (%s); recent streams: %v", kind, tailStrings(r, 6)), map[string]interface{}{"recent_streams": r})
		return false
	}
	pingWitness := func() bool {
		for _, w := range []*kit.Client{wsub, wpub} {
			ok, _ := w.Ping(60 * time.Second)
			if !ok {
				ok, _ = w.Ping(60 * time.Second)
			}
			if !ok {
				recentMu.Lock()
				r := append([]string{}, recent...)
				recentMu.Unlock()
				kind := "stalled"
				if w.Closed() {
					kind = "witness-disconnected"
				}
				c.Violation(kind, fmt.Sprintf("witness client %s got no PINGRESP after hostile streams (%s); recent streams: %v", w.Name, kind, tailStrings(r, 6)), map[string]interface{}{"recent_streams": r})
				return false
			}
		}
		return true
	}
	if !roundTrip() {
		return
	}
	// meanwhile, on nodes of their own: acknowledgements arriving exactly while their deadlines are swept
	// (a client decides when it acknowledges); a panic there ends this process like any other
	var storms sync.WaitGroup
	for i := 0; i < c.Pick(6, 12); i++ {
		storms.Add(1)
		go func(i int) { defer storms.Done(); c03AckStormN(c, 1800+i, c.Pick(14, 60)) }(i)
	}
	defer storms.Wait()
	// connections that never send anything (or half a CONNECT) and stay open for the whole run
	lingering := []*kit.Client{}
	for i := 0; i < 24; i++ {
		lc := n.Dial(fmt.Sprintf("silent-%d", i))
		if i%2 == 1 {
			lc.SendTimeout([]byte{0x10, 0x20, 0x00, 0x04, 'M', 'Q'}, 2*time.Second)
		}
		lingering = append(lingering, lc)
	}
	// connections that subscribed with requested QoS 3 (not a QoS) to everything and then just stay: whatever the
	// broker makes of such a subscription, the other subscribers of the same topics keep being served
	for i := 0; i < 3; i++ {
		lc := n.Dial(fmt.Sprintf("qos3-%d", i))
		lc.SendTimeout(kit.EncConnect(kit.ConnectOpts{ClientID: fmt.Sprintf("qos3-%d", i), KeepAlive: 3600, Clean: true}), 2*time.Second)
		sub := kit.EncSubscribe(7, []string{"#", "witness/#", "witness/t"}, []int{3, 3, 3})
		lc.SendTimeout(sub, 2*time.Second)
		lingering = append(lingering, lc)
	}
	defer func() {
		for _, lc := range lingering {
			lc.Close()
		}
	}()
	par := 8
	var sent int64
	far := time.Now().Add(time.Hour)
	for base := 0; base < len(corpus); base += par {
		end := base + par
		if end > len(corpus) {
			end = len(corpus)
		}
		var wg sync.WaitGroup
		for i := base; i < end; i++ {
			st := corpus[i]
			line := fmt.Sprintf("%s %s", st.name, hex.EncodeToString(st.bytes))
			fw.LogCase("C18 %s", line)
			recentMu.Lock()
			recent = append(recent, line)
			if len(recent) > 24 {
				recent = recent[len(recent)-24:]
			}
			recentMu.Unlock()
			wg.Add(1)
			go func(st c18Stream) {
				defer wg.Done()
				hc := n.Dial("hostile")
				if len(st.bytes) > 0 {
					hc.SendTimeout(st.bytes, 2*time.Second)
				}
				hc.WaitClosed(25 * time.Millisecond)
				hc.Close()
				atomic.AddInt64(&sent, 1)
			}(st)
			c.Case(hex.EncodeToString(st.bytes), true)
		}
		wg.Wait()
		// hostile sessions leave in-flight exchanges behind (unanswered QoS 2 publishes, unacknowledged
		// deliveries): expire them now, in this goroutine, instead of waiting 3 s for the ticker
		far = far.Add(time.Hour)
		n.Ack.Expire(far)
		c.Observe("forced_expiry_sweeps", 1)
		if !pingWitness() {
			return
		}
		if (base/par)%5 == 4 {
			if !roundTrip() {
				return
			}
		}
	}
	time.Sleep(200 * time.Millisecond)
	far = far.Add(time.Hour)
	n.Ack.Expire(far)
	if !pingWitness() || !roundTrip() {
		return
	}
	// well-behaved clients whose packets arrive in pieces (fixed header, remaining length and body in
	// separate writes with pauses), many at once, with different packet types and lengths: one client's
	// bytes must never influence how another client's packet is framed
	{
		const nDrip = 44
		var wg sync.WaitGroup
		var dropped int64
		var firstDrop atomic.Value
		for i := 0; i < nDrip; i++ {
			wg.Add(1)
			go func(i int) {
				defer wg.Done()
				dc, err := n.MustConnect(kit.ConnectOpts{ClientID: fmt.Sprintf("drip-%d", i), KeepAlive: 3600, Clean: true})
				if err != nil {
					atomic.AddInt64(&dropped, 1)
					firstDrop.Store(fmt.Sprintf("drip-%d could not connect: %v", i, err))
					return
				}
				defer dc.Close()
				for k := 0; k < 6; k++ {
					var pkt []byte
					wantType, wantID := kit.PUBACK, 10+k
					switch (i + k) % 3 {
					case 0:
						pkt = kit.EncPublish(fmt.Sprintf("drip/%d", i), bytes.Repeat([]byte{byte('a' + i%20)}, 130+37*i+11*k), 1, false, false, wantID)
					case 1:
						pkt = kit.EncSubscribe(wantID, []string{fmt.Sprintf("drip/%d/%s", i, strings.Repeat("x", 120+3*i))}, []int{0})
						wantType = kit.SUBACK
					default:
						pkt = kit.EncPingReq()
						wantType, wantID = kit.PINGRESP, 0
					}
					from := dc.NumEvents()
					cut := 1
					if len(pkt) > 3 {
						cut = 2
					}
					dc.Send(pkt[:1])
					time.Sleep(time.Duration(1+(i+k)%4) * time.Millisecond)
					dc.Send(pkt[1:cut])
					time.Sleep(time.Duration(1+(i*7+k)%3) * time.Millisecond)
					if cut < len(pkt) {
						dc.Send(pkt[cut:])
					}
					if _, _, err := dc.WaitFor(from, 30*time.Second, func(e kit.Event) bool {
						return e.Pkt.Type == wantType && (wantID == 0 || e.Pkt.ID == wantID)
					}); err != nil {
						atomic.AddInt64(&dropped, 1)
						firstDrop.Store(fmt.Sprintf("drip-%d: packet %d (%d bytes, sent in three pieces) was not answered with %s: %v (connection closed: %v)", i, k, len(pkt), kit.TypeName(wantType), err, dc.Closed()))
						return
					}
				}
				c.Observe("piecewise_clients_served", 1)
			}(i)
		}
		wg.Wait()
		if dropped > 0 {
			c.Violation("valid-client-dropped:piecewise-packets", fmt.Sprintf("%d of %d well-behaved clients that sent valid packets in pieces, concurrently, were not served; e.g. %v", dropped, nDrip, firstDrop.Load()), map[string]interface{}{"dropped": dropped})
			return
		}
	}
	storms.Wait()
	// a client that arrives after all this is still admitted and served
	late, code, err := n.Connect(kit.ConnectOpts{ClientID: "late-witness", KeepAlive: 600, Clean: true})
	if err != nil || code != 0 {
		c.Violation("stalled", fmt.Sprintf("after the hostile streams (and with 24 silent connections still open) a new client could not connect: code %d, %v", code, err), nil)
		return
	}
	defer late.Close()
	if err := late.Sub1("witness/#", 0); err != nil {
		c.Violation("stalled", "a client admitted after the hostile streams could not subscribe: "+err.Error(), nil)
		return
	}
	if !roundTrip() {
		return
	}
	if _, _, err := late.WaitFor(0, 60*time.Second, func(e kit.Event) bool { return e.Pkt.Type == kit.PUBLISH }); err != nil {
		c.Violation("stalled", "a client admitted after the hostile streams receives nothing: "+err.Error(), nil)
		return
	}
	c.Observe("late_client_served", 1)
	c.Observe("streams_sent", int(sent))
	c.Sample(map[string]interface{}{"stream": corpus[5].name, "hex": hex.EncodeToString(corpus[5].bytes)})
	c.Sample(map[string]interface{}{"stream": corpus[len(corpus)/2].name, "hex": hex.EncodeToString(corpus[len(corpus)/2].bytes)})
	c.Sample(map[string]interface{}{"stream": corpus[len(corpus)-1].name, "hex": hex.EncodeToString(corpus[len(corpus)-1].bytes)})
	c.Floor("streams_sent", 1000)
	c.Floor("witness_round_trips", 10)
}
