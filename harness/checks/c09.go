package checks

import (
	"fmt"
	"sync/atomic"
	"time"

	"github.com/vx-labs/mqtt-protocol/packet"
	"github.com/vx-labs/wasp/v4/wasp/distributed"

	"wv/fw"
	"wv/kit"
)

// C09 — every local state change is carried completely by the broadcasts it queues.

func init() {
	fw.Register("C09", fw.Spec{Run: runC09})
}

type c09Op struct {
	name string
	do   func(s distributed.State)
}

func c09Alphabet(self, other uint64) []c09Op {
	sub := func(id, f string) c09Op {
		return c09Op{fmt.Sprintf("subs.Create(%s,%s)", id, f), func(s distributed.State) { s.Subscriptions().Create(id, []byte(f), 1) }}
	}
	return []c09Op{
		{"sessions.Create(S1)", func(s distributed.State) { s.SessionMetadatas().Create("S1", "c1", 1, nil, "mp") }},
		{"sessions.Create(S2)", func(s distributed.State) {
			s.SessionMetadatas().Create("S2", "c2", 2, &packet.Publish{Header: &packet.Header{}, Topic: []byte("mp/w"), Payload: []byte("w")}, "mp")
		}},
		{"sessions.Create(S3,client id empty)", func(s distributed.State) { s.SessionMetadatas().Create("S3", "", 3, nil, "mp") }},
		{"sessions.Delete(S1)", func(s distributed.State) { s.SessionMetadatas().Delete("S1") }},
		sub("S1", "mp/a"), sub("S1", "mp/a/b"), sub("S2", "mp/a"),
		{"subs.Delete(S1,mp/a)", func(s distributed.State) { s.Subscriptions().Delete("S1", []byte("mp/a")) }},
		{"subs.DeleteSession(S1)", func(s distributed.State) { s.Subscriptions().DeleteSession("S1") }},
		{"subs.DeletePeer(self)", func(s distributed.State) { s.Subscriptions().DeletePeer(self) }},
		{"subs.DeletePeer(other)", func(s distributed.State) { s.Subscriptions().DeletePeer(other) }},
		{"sessions.DeletePeer(self)", func(s distributed.State) { s.SessionMetadatas().DeletePeer(self) }},
		{"sessions.DeletePeer(other)", func(s distributed.State) { s.SessionMetadatas().DeletePeer(other) }},
		{"topics.Set(mp/t)", func(s distributed.State) {
			s.Topics().Set(&packet.Publish{Header: &packet.Header{Retain: true}, Topic: []byte("mp/t"), Payload: []byte("x")})
		}},
		{"topics.Delete(mp/t)", func(s distributed.State) { s.Topics().Delete([]byte("mp/t")) }},
	}
}

func runC09(c *fw.Ctx) {
	c.Rule = "(A) every sequence of <=4 (quick) / <=5 (thorough) mutator calls from a 15-call alphabet (session/subscription/retained create and delete, DeleteSession, DeletePeer(self|other) for subscriptions and sessions) on node A, after a preamble in which another peer P has replicated one session with two subscriptions to A and to follower B; (B) seeded sequences of 5-30 calls over 4+ sessions x 5 filters x 3 topics x 2 peers with bulk removals touching 0, 1 and many entries. (C) retained-message Set/Delete sequences under a clock that advances only every 2-4 calls. (D) every sequence of <=3 calls with an audit sink that fails. After EACH call the broadcasts queued by A are drained and delivered to B; B must list exactly what A lists, and a call that changed A's listing must have queued a broadcast. distinct = call sequence; non-trivial = contains a bulk removal or two calls on the same key"
	c.Assume("single clock domain (a monotone counter installed through hook H3): C09 is about one node's changes; clock offsets are C08's subject")
	var tick int64
	distributed.VerifSetClock(func() int64 { tick++; return 1000 + tick })

	check := func(label string, names []string, a, b *kit.Replica, before kit.Canon, queued int) bool {
		ca, cb := a.Canon(), b.Canon()
		if !ca.Equal(cb) {
			c.Violation("follower-differs:"+lastWord(names[len(names)-1]), fmt.Sprintf("%s: after calls %v the follower lists %s but the node lists %s", label, names, cb, ca),
				map[string]interface{}{"calls": names, "node": ca.String(), "follower": cb.String()})
			return false
		}
		if !ca.Equal(before) && queued == 0 {
			c.Violation("silent-change:"+lastWord(names[len(names)-1]), fmt.Sprintf("%s: call %s changed the node's listing without queuing a broadcast", label, names[len(names)-1]),
				map[string]interface{}{"calls": names, "before": before.String(), "after": ca.String()})
			return false
		}
		return true
	}

	// ---- part A: exhaustive short sequences ------------------------------------
	alpha := c09Alphabet(1, 2)
	maxL := c.Pick(4, 5)
	preamble := func() (a, b, p *kit.Replica) {
		a, b, p = kit.NewReplica(1), kit.NewReplica(3), kit.NewReplica(2)
		p.S.SessionMetadatas().Create("SP", "cp", 9, nil, "mp")
		p.S.Subscriptions().Create("SP", []byte("mp/a"), 0)
		p.S.Subscriptions().Create("SP", []byte("mp/p"), 2)
		for _, bc := range p.Drain() {
			a.Deliver(bc)
			b.Deliver(bc)
		}
		return
	}
	seqs := 0
	var lastSeq atomic.Value
	lastSeq.Store("")
	var rec func(prefix []int)
	rec = func(prefix []int) {
		if len(prefix) > 0 {
			a, b, _ := preamble()
			names := []string{}
			ok := true
			for _, oi := range prefix {
				before := a.Canon()
				names = append(names, alpha[oi].name)
				lastSeq.Store(fmt.Sprint(names))
				alpha[oi].do(a.S)
				bs := a.Drain()
				for _, bc := range bs {
					b.Deliver(bc)
				}
				c.Observe("broadcasts_delivered", len(bs))
				if !check("A", names, a, b, before, len(bs)) {
					ok = false
					break
				}
			}
			_ = ok
			seqs++
			if seqs == 500 {
				c.Sample(map[string]interface{}{"part": "A", "calls": names})
			}
		}
		if len(prefix) == maxL {
			return
		}
		for i := range alpha {
			rec(append(append([]int{}, prefix...), i))
		}
	}
	if !c.Guard("mutator-sequences", time.Duration(c.Pick(120, 900))*time.Second, func() string { return lastSeq.Load().(string) }, func() { rec(nil) }) {
		return
	}
	c.CaseBulk(seqs, seqs-len(alpha))
	c.Exhaustive(false)
	c.Extra("exhaustive_part", fmt.Sprintf("part A: all %d call sequences of length <=%d over the 15-call alphabet", seqs, maxL))

	// ---- part B: seeded longer sequences -----------------------------------------
	n := c.Pick(5000, 100000)
	for s := 0; s < n; s++ {
		rg := c.SubRng("c09", s)
		w := newCrdtWorld(rg, []int64{0, 0})
		b := kit.NewReplica(3)
		steps := 5 + rg.Intn(26)
		bulk := false
		names := []string{}
		drainEvery, held := 1, 0
		if s%3 == 2 {
			drainEvery = 2 + rg.Intn(3)
		}
		w.noCollect = true
		for i := 0; i < steps; i++ {
			actor := 0
			if rg.Intn(10) < 3 {
				actor = 1
			}
			w.force = actor
			tl := len(w.trace)
			before := w.nodes[0].Canon()
			w.step(true)
			last := i == steps-1
			if len(w.trace) != tl {
				call := w.trace[len(w.trace)-1]
				names = append(names, call)
				if containsAny(call, "DeleteSession", "DeletePeer") {
					bulk = true
				}
				if actor == 1 {
					// the other peer's broadcasts reach both the node and the follower at once
					for _, bc := range w.collect(1) {
						w.nodes[0].Deliver(bc)
						b.Deliver(bc)
					}
					if !last {
						continue
					}
				} else {
					held++
				}
			}
			// in a third of the sequences the node's queue is drained only every 2-4 calls: what a
			// later call queues must not displace what is still waiting
			if (held < drainEvery && !last) || len(names) == 0 {
				continue
			}
			held = 0
			fresh := w.collect(0)
			for _, bc := range fresh {
				b.Deliver(bc)
			}
			c.Observe("broadcasts_delivered", len(fresh))
			queued := len(fresh)
			if drainEvery > 1 || actor == 1 {
				queued = 1 // "changed without a broadcast" is judged per call only (drain after every call of the node itself)
			}
			if !check("B", names, w.nodes[0], b, before, queued) {
				break
			}
		}
		c.Case(fmt.Sprintf("B|%v", names), bulk)
		if s < 2 {
			c.Sample(map[string]interface{}{"part": "B", "calls": names})
		}
	}
	// ---- part C: retained-message changes under a clock that does not advance between calls --------
	// (coarse clocks exist; two publishes on one topic within one tick must still reach the follower)
	nC := c.Pick(1500, 30000)
	for s := 0; s < nC; s++ {
		rg := c.SubRng("c09/stall", s)
		var t int64 = 5000
		stall := 2 + rg.Intn(3)
		calls := 0
		distributed.VerifSetClock(func() int64 {
			calls++
			if calls%stall == 0 {
				t++
			}
			return t
		})
		a, b := kit.NewReplica(1), kit.NewReplica(3)
		names := []string{}
		steps := 3 + rg.Intn(8)
		ok := true
		for i := 0; i < steps && ok; i++ {
			topic := []string{"mp/t", "mp/t/u"}[rg.Intn(2)]
			before := a.Canon()
			if rg.Intn(3) > 0 {
				v := fmt.Sprintf("v%d", i)
				a.S.Topics().Set(&packet.Publish{Header: &packet.Header{Retain: true}, Topic: []byte(topic), Payload: []byte(v)})
				names = append(names, "topics.Set("+topic+"="+v+")")
			} else {
				a.S.Topics().Delete([]byte(topic))
				names = append(names, "topics.Delete("+topic+")")
			}
			bs := a.Drain()
			for _, bc := range bs {
				b.Deliver(bc)
			}
			c.Observe("broadcasts_delivered", len(bs))
			ok = check("C(stalling clock)", names, a, b, before, len(bs))
		}
		c.Case(fmt.Sprintf("C|%d|%v", stall, names), true)
		if s < 1 {
			c.Sample(map[string]interface{}{"part": "C", "clock_advances_every_n_calls": stall, "calls": names})
		}
	}
	// ---- part D: the audit sink fails -----------------------------------------------------------
	// (audit is a side channel: a failing sink must not separate a local change from its broadcast)
	distributed.VerifSetClock(func() int64 { tick++; return 1000 + tick })
	{
		var fail atomic.Bool
		var events atomic.Int64
		dSeqs := 0
		var recD func(prefix []int)
		recD = func(prefix []int) {
			if len(prefix) > 0 {
				fail.Store(false)
				a, b := kit.NewReplicaFlakyAudit(1, &fail, &events), kit.NewReplica(3)
				names := []string{}
				for k, oi := range prefix {
					// the sink fails from the second call on (the first may have to succeed to create something)
					fail.Store(k > 0 || len(prefix) == 1)
					before := a.Canon()
					alpha[oi].do(a.S)
					names = append(names, alpha[oi].name+map[bool]string{true: "[audit sink failing]", false: ""}[fail.Load()])
					bs := a.Drain()
					for _, bc := range bs {
						b.Deliver(bc)
					}
					c.Observe("broadcasts_delivered", len(bs))
					if !check("D(failing audit sink)", names, a, b, before, len(bs)) {
						break
					}
				}
				dSeqs++
			}
			if len(prefix) == 3 {
				return
			}
			for i := range alpha {
				recD(append(append([]int{}, prefix...), i))
			}
		}
		recD(nil)
		c.CaseBulk(dSeqs, dSeqs)
		c.Observe("audit_events_offered_to_failing_sink", int(events.Load()))
		c.Floor("audit_events_offered_to_failing_sink", 100)
	}
	// concurrent local writes on one retained topic (three goroutines): what the node keeps must be what
	// its broadcasts give a follower
	for r := 0; r < c.Pick(2, 10); r++ {
		c20HotTopic(c, 900+r)
	}
	distributed.VerifSetClock(func() int64 { tick++; return 1000 + tick })
	c.Floor("broadcasts_delivered", 1000)
}

func containsAny(s string, subs ...string) bool {
	for _, x := range subs {
		if len(x) > 0 && len(s) >= len(x) {
			for i := 0; i+len(x) <= len(s); i++ {
				if s[i:i+len(x)] == x {
					return true
				}
			}
		}
	}
	return false
}

// lastWord reduces a call description to the operation name (violation key).
func lastWord(call string) string {
	// "n1.subs.DeletePeer(2)" -> "subs.DeletePeer" ; "subs.DeletePeer(other)" -> same
	s := call
	for i := 0; i < len(s); i++ {
		if s[i] == '(' {
			s = s[:i]
			break
		}
	}
	if len(s) > 3 && s[0] == 'n' && s[2] == '.' {
		s = s[3:]
	}
	return s
}
