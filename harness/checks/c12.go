package checks

import (
	"fmt"
	"sort"
	"strings"
	"sync"
	"sync/atomic"
	"time"

	"wv/fw"
	"wv/kit"
)

// C12 — one live session per client identifier.

func init() {
	fw.Register("C12", fw.Spec{Run: runC12})
}

type c12Scenario struct {
	nNodes        int
	places        []int    // node index of each connection in the chain (2 or 3 connections)
	oldEvent      []string // what each displaced session does: ping | subscribe | disconnect | close | nothing
	when          []string // before-gossip | after-gossip | at-setup-point | at-setup-lookup-point | at-shutdown-point
	emptyClientID bool
}

func c12Run(c *fw.Ctx, idx int, sc c12Scenario) {
	fw.LogCase("C12 scenario %d %+v", idx, sc)
	cl := kit.NewCluster(kit.WorkDir("c12"))
	defer cl.Close()
	auth := kit.PredictableAuth()
	nodes := []*kit.Node{}
	// in a third of the scenarios the audit sink (a side channel) fails from the second connection on
	var auditDown atomic.Bool
	auditFails := idx%3 == 1
	for i := 1; i <= sc.nNodes; i++ {
		n, err := cl.AddNode(kit.NodeOpts{ID: uint64(i), Auth: auth, AuditFail: &auditDown})
		if err != nil {
			c.Inconclusive("cannot start node: " + err.Error())
			return
		}
		nodes = append(nodes, n)
	}
	// in 3-node scenarios whose connections avoid node 3, that node is a bystander which receives all
	// gossip of the scenario only at the end and in REVERSE order (removals before the creations they remove)
	bystander := -1
	if sc.nNodes == 3 {
		used := map[int]bool{}
		for _, p := range sc.places {
			used[p] = true
		}
		if !used[2] && idx%3 != 0 {
			bystander = 2
			cl.HoldGossipFor(3)
		}
	}
	clientID := fmt.Sprintf("dup-%d", idx)
	if sc.emptyClientID {
		clientID = "" // the zero-length client identifier is legal with a clean session; it is an identifier like any other
	}
	desc := fmt.Sprintf("connections of %q on nodes %v, displaced sessions do %v (%v)", clientID, addOne(sc.places), sc.oldEvent, sc.when)
	if auditFails {
		desc += ", audit sink failing from the second connection on"
	}
	wit := func(extra map[string]interface{}) map[string]interface{} {
		out := map[string]interface{}{"scenario": idx, "nodes": sc.nNodes, "places": addOne(sc.places), "old_events": sc.oldEvent, "when": sc.when}
		for k, v := range extra {
			out[k] = v
		}
		return out
	}
	conns := []*kit.Client{}
	sessIDs := []string{}
	// a witness that publishes at the end
	wnode := nodes[0]
	witness, err := wnode.MustConnect(kit.ConnectOpts{ClientID: fmt.Sprintf("witness-%d", idx), KeepAlive: 600, Clean: true})
	if err != nil {
		c.Inconclusive("connect: " + err.Error())
		return
	}
	defer witness.Close()
	if err := witness.Sub1("c12/#", 0); err != nil {
		c.Inconclusive("subscribe: " + err.Error())
		return
	}
	for k, place := range sc.places {
		node := nodes[place]
		id := fmt.Sprintf("%s#%d", clientID, k+1) // as the predictable authentication handler names it
		var release func()
		var reached <-chan struct{}
		if k > 0 && sc.when[k-1] == "at-setup-point" {
			reached, release = kit.BlockAt("setup.afterDeleteOld", id)
		}
		if k > 0 && sc.when[k-1] == "at-setup-lookup-point" {
			reached, release = kit.BlockAt("setup.afterLookupOld", id)
		}
		// precondition of the property: the accepting node has learned of the earlier session
		cl.Quiesce()
		if auditFails && k > 0 {
			auditDown.Store(true)
			c.Observe("takeovers_with_failing_audit_sink", 1)
		}
		var cc *kit.Client
		var code int
		var cerr error
		done := make(chan struct{})
		go func() {
			cc, code, cerr = node.Connect(kit.ConnectOpts{ClientID: clientID, KeepAlive: 600, Clean: true})
			close(done)
		}()
		oldActed := false
		actOld := func() {
			if k == 0 || oldActed {
				return
			}
			oldActed = true
			old := conns[k-1]
			switch sc.oldEvent[k-1] {
			case "ping":
				// wait for the answer (or the disconnection): a late PINGRESP must not be mistaken
				// for the answer to the keep-alive exchange that is judged further down
				from := old.NumEvents()
				old.Send(kit.EncPingReq())
				old.WaitFor(from, 5*time.Second, func(e kit.Event) bool { return e.Pkt.Type == kit.PINGRESP })
			case "subscribe":
				from := old.NumEvents()
				old.Send(kit.EncSubscribe(77, []string{"c12/old"}, []int{0}))
				old.WaitFor(from, 5*time.Second, func(e kit.Event) bool { return e.Pkt.Type == kit.SUBACK })
			case "disconnect":
				old.Send(kit.EncDisconnect())
			case "close":
				old.Close()
			}
			c.Observe("old_session_events_"+sc.oldEvent[k-1], 1)
		}
		if release != nil {
			select {
			case <-reached:
				c.Observe("setup_point_reached", 1)
				actOld() // between "old record deleted" and "new record created" (or between lookup and deletion)
				time.Sleep(20 * time.Millisecond)
				if sc.when[k-1] == "at-setup-lookup-point" && (sc.oldEvent[k-1] == "close" || sc.oldEvent[k-1] == "disconnect") {
					// the earlier session's own teardown completes (and is gossiped) while the accepting
					// goroutine still holds the record it looked up
					oldNode, oldID := nodes[sc.places[k-1]], sessIDs[k-1]
					pollGone(5*time.Second, func() []string {
						cl.Quiesce()
						if oldNode.Local.Get(oldID) != nil {
							return []string{"old session still registered"}
						}
						if _, err := node.State.SessionMetadatas().Get(oldID); err == nil {
							return []string{"old record still listed"}
						}
						return nil
					})
					c.Observe("old_teardown_completed_inside_setup", 1)
				}
			case <-time.After(kit.DefaultWait):
				// no earlier record was found by setup: the point is not on this path
				c.Observe("setup_point_not_reached", 1)
			case <-done:
			}
			release()
		}
		select {
		case <-done:
		case <-time.After(kit.DefaultWait + 5*time.Second):
			c.Inconclusive(desc + ": CONNECT did not finish")
			return
		}
		if cerr != nil || code != 0 {
			c.Violation("newer-connection-refused", fmt.Sprintf("%s: connection %d was not established (code %d, %v)", desc, k+1, code, cerr), wit(nil))
			return
		}
		defer cc.Close()
		conns = append(conns, cc)
		sessIDs = append(sessIDs, id)
		if node.Local.Get(id) == nil {
			c.Inconclusive(fmt.Sprintf("%s: predicted session id %s not found in the registry", desc, id))
			return
		}
		if err := cc.Sub1(fmt.Sprintf("c12/s%d", k+1), 0); err != nil {
			c.Violation("newer-session-not-served", fmt.Sprintf("%s: connection %d could not subscribe: %v", desc, k+1, err), wit(nil))
			return
		}
		if k > 0 {
			switch sc.when[k-1] {
			case "before-gossip":
				actOld()
				cl.Quiesce()
			case "after-gossip":
				cl.Quiesce()
				actOld()
			case "at-shutdown-point":
				// the old session's teardown is held between its lookup and its delete while gossip is delivered
				r2, rel2 := kit.BlockAt("shutdown.afterLookup", sessIDs[k-1])
				actOld()
				select {
				case <-r2:
					c.Observe("shutdown_point_reached", 1)
				case <-time.After(2 * time.Second):
				}
				cl.Quiesce()
				rel2()
			}
			cl.Quiesce()
			// the displaced session's next keep-alive exchange
			old := conns[k-1]
			if !old.Closed() {
				from := old.NumEvents()
				old.Send(kit.EncPingReq())
				closed := old.WaitClosed(10 * time.Second)
				answered := false
				for _, e := range old.Events()[from:] {
					if e.Pkt.Type == kit.PINGRESP {
						answered = true
					}
				}
				if answered {
					c.Violation("displaced-session-still-served", fmt.Sprintf("%s: after the gossip was delivered, session %d still answers PINGREQ", desc, k), wit(nil))
					return
				}
				if !closed {
					c.Violation("displaced-session-not-closed", fmt.Sprintf("%s: session %d was not disconnected after its keep-alive exchange", desc, k), wit(nil))
					return
				}
			}
			// its teardown must be complete before judging what it left behind
			oldNode := nodes[sc.places[k-1]]
			if left := pollGone(10*time.Second, func() []string {
				if oldNode.Local.Get(sessIDs[k-1]) != nil {
					return []string{"old session still registered"}
				}
				return nil
			}); len(left) > 0 {
				c.Violation("displaced-session-not-removed", fmt.Sprintf("%s: session %d is still in its node's registry 10 s after displacement", desc, k), wit(nil))
				return
			}
			time.Sleep(10 * time.Millisecond)
			cl.Quiesce()
		}
	}
	cl.Quiesce()
	if idx%2 == 1 {
		// late retransmissions: every gossip message of the scenario arrives once more, everywhere
		// (a seeded half of them: a retransmitted announcement does not always come with the removal that followed it)
		rr := c.SubRng("c12/redeliver", idx)
		c.Observe("gossip_messages_redelivered", cl.RedeliverGossip(func(int, uint64) bool { return rr.Intn(2) == 0 }))
		cl.Quiesce()
	}
	if bystander >= 0 {
		n := cl.ReleaseGossipReversed(3)
		c.Observe("bystander_reversed_gossip_messages", n)
		cl.Quiesce()
	}
	newest := sessIDs[len(sessIDs)-1]
	// every node resolves the identifier to the newest session
	for _, n := range nodes {
		md, err := n.State.SessionMetadatas().ByClientID("_default", clientID)
		c.Observe("resolutions_checked", 1)
		if err != nil {
			c.Violation("identifier-unresolved", fmt.Sprintf("%s: node %d resolves the client identifier to nothing (newest session %s): tearing down a displaced session removed the new record", desc, n.ID, newest), wit(map[string]interface{}{"node": n.ID}))
			return
		}
		if md.SessionID != newest {
			c.Violation("identifier-resolves-to-old-session", fmt.Sprintf("%s: node %d resolves the client identifier to %s, newest is %s", desc, n.ID, md.SessionID, newest), wit(map[string]interface{}{"node": n.ID, "resolved": md.SessionID}))
			return
		}
		subs := 0
		for _, s := range n.State.Subscriptions().All() {
			if s.SessionID == newest {
				subs++
			}
			for i, old := range sessIDs[:len(sessIDs)-1] {
				if s.SessionID == old {
					c.Violation("displaced-subscription-left", fmt.Sprintf("%s: node %d still lists subscription (%s,%s) of displaced session %d", desc, n.ID, s.SessionID, s.Pattern, i+1), wit(nil))
					return
				}
			}
		}
		if subs != 1 {
			c.Violation("newer-subscription-lost", fmt.Sprintf("%s: node %d lists %d subscriptions of the newest session %s, want 1", desc, n.ID, subs, newest), wit(map[string]interface{}{"node": n.ID}))
			return
		}
	}
	// the newest session is served end to end
	last := conns[len(conns)-1]
	tag := fmt.Sprintf("c12-final-%d", idx)
	topic := fmt.Sprintf("c12/s%d", len(conns))
	if acked, err := witness.Publish(topic, []byte(tag), 1, false, kit.DefaultWait); !acked {
		c.Inconclusive(fmt.Sprintf("%s: final publish not acknowledged: %v", desc, err))
		return
	}
	if _, _, err := last.WaitFor(0, 30*time.Second, func(e kit.Event) bool { return e.Pkt.Type == kit.PUBLISH && string(e.Pkt.Payload) == tag }); err != nil {
		c.Violation("newer-session-not-served", fmt.Sprintf("%s: a publish to the newest session's filter was not delivered to it: %v", desc, err), wit(nil))
		return
	}
	if ok, _ := last.Ping(kit.DefaultWait); !ok {
		c.Violation("newer-session-not-served", desc+": the newest session does not answer PINGREQ", wit(nil))
		return
	}
	for i, old := range conns[:len(conns)-1] {
		for _, p := range old.Publishes() {
			if strings.HasPrefix(string(p.Payload), "c12-final") {
				c.Violation("delivered-to-displaced-session", fmt.Sprintf("%s: displaced session %d received a publish after displacement", desc, i+1), wit(nil))
			}
		}
	}
	c.Case(fmt.Sprintf("%+v", sc), true)
}

// c12NewerLeaves: A connects, B takes the identifier over and then leaves (DISCONNECT or
// connection loss) BEFORE A's next keep-alive exchange. A was displaced: it must not be
// served again just because its successor is gone.
func c12NewerLeaves(c *fw.Ctx, idx int, nNodes int, sameNode bool, how string) {
	fw.LogCase("C12 newer-leaves %d nodes=%d same=%v %s", idx, nNodes, sameNode, how)
	cl := kit.NewCluster(kit.WorkDir("c12n"))
	defer cl.Close()
	auth := kit.PredictableAuth()
	nodes := []*kit.Node{}
	for i := 1; i <= nNodes; i++ {
		n, err := cl.AddNode(kit.NodeOpts{ID: uint64(i), Auth: auth})
		if err != nil {
			c.Inconclusive("cannot start node: " + err.Error())
			return
		}
		nodes = append(nodes, n)
	}
	clientID := fmt.Sprintf("leave-%d", idx)
	desc := fmt.Sprintf("A and B connect as %q (%d node(s), same node: %v), B ends with %s, then A sends PINGREQ", clientID, nNodes, sameNode, how)
	a, err := nodes[0].MustConnect(kit.ConnectOpts{ClientID: clientID, KeepAlive: 600, Clean: true})
	if err != nil {
		c.Inconclusive("connect: " + err.Error())
		return
	}
	defer a.Close()
	cl.Quiesce()
	bn := nodes[0]
	if !sameNode {
		bn = nodes[nNodes-1]
	}
	b, err := bn.MustConnect(kit.ConnectOpts{ClientID: clientID, KeepAlive: 600, Clean: true})
	if err != nil {
		c.Violation("newer-connection-refused", desc+": B was not accepted: "+err.Error(), nil)
		return
	}
	defer b.Close()
	cl.Quiesce()
	if how == "DISCONNECT" {
		b.Send(kit.EncDisconnect())
	} else {
		b.Close()
	}
	if left := pollGone(10*time.Second, func() []string {
		if bn.Local.Get(clientID+"#2") != nil {
			return []string{"B still registered"}
		}
		return nil
	}); len(left) > 0 {
		c.Inconclusive(desc + ": B's session did not end")
		return
	}
	time.Sleep(10 * time.Millisecond)
	cl.Quiesce()
	from := a.NumEvents()
	a.Send(kit.EncPingReq())
	closed := a.WaitClosed(10 * time.Second)
	answered := false
	for _, e := range a.Events()[from:] {
		if e.Pkt.Type == kit.PINGRESP {
			answered = true
		}
	}
	c.Observe("newer_leaves_scenarios", 1)
	c.Case(fmt.Sprintf("newer-leaves|%d|%v|%s", nNodes, sameNode, how), true)
	if answered {
		c.Violation("displaced-session-served-again", desc+": A, displaced by B, got PINGRESP at its next keep-alive exchange", map[string]interface{}{"nodes": nNodes, "same_node": sameNode, "newer_ended_by": how})
		return
	}
	if !closed {
		c.Violation("displaced-session-not-closed", desc+": A was not disconnected", nil)
	}
}

func addOne(a []int) []int {
	out := make([]int, len(a))
	for i, v := range a {
		out[i] = v + 1
	}
	return out
}

func runC12(c *fw.Ctx) {
	c.Rule = "pairs and chains of 3 connections sharing a client identifier on 1-3 nodes (same node / different nodes), gossip delivered by an explicit pump; each displaced session performs one event (PINGREQ, SUBSCRIBE, DISCONNECT, close, nothing) placed before the takeover's gossip, after it, BETWEEN 'old record deleted' and 'new record created' in the accepting node's setup (hook H2, the accepting goroutine is held there), between the accepting node's lookup of the earlier record and its removal (the earlier session's own teardown completes in between), or with its own teardown held between lookup and delete (hook H2) while the gossip is delivered. In a third of the scenarios the nodes' audit sink fails from the second connection on. In 3-node scenarios that leave node 3 unused, that node receives the whole scenario's gossip at the end in reverse order. Oracle: every CONNECT is accepted; after quiescence every node resolves the identifier to the newest session, lists exactly its subscription and none of the displaced ones; the displaced session's next PINGREQ gets no PINGRESP and its connection is closed; a publish to the newest session's filter reaches it and not the others. Also: the newer session leaves (DISCONNECT / connection loss) before the displaced one's keep-alive exchange, which must still end the displaced one. Quick: the full grid of pairs (placement x event x timing) and seeded chains; thorough: more chains. distinct = scenario parameters; non-trivial = all"
	c.Assume("the accepting node has learned of the earlier session (gossip barrier before each CONNECT), as the property requires")
	events := []string{"ping", "subscribe", "disconnect", "close", "nothing"}
	whens := []string{"before-gossip", "after-gossip", "at-setup-point", "at-setup-lookup-point", "at-shutdown-point"}
	scen := []c12Scenario{}
	placements := []struct {
		n int
		p []int
	}{{1, []int{0, 0}}, {2, []int{0, 1}}, {2, []int{1, 0}}, {3, []int{0, 2}}, {3, []int{0, 1}}, {3, []int{1, 0}}}
	for _, pl := range placements {
		for _, ev := range events {
			for _, wh := range whens {
				if wh == "at-shutdown-point" && (ev == "nothing" || ev == "subscribe" || ev == "ping") {
					continue // no teardown is triggered by these before the keep-alive exchange
				}
				scen = append(scen, c12Scenario{nNodes: pl.n, places: pl.p, oldEvent: []string{ev}, when: []string{wh}})
			}
		}
	}
	// one scenario at a time uses the zero-length identifier (two at once would displace each other)
	emptyIDScenarios := []c12Scenario{
		{nNodes: 1, places: []int{0, 0}, oldEvent: []string{"ping"}, when: []string{"after-gossip"}, emptyClientID: true},
		{nNodes: 2, places: []int{0, 1}, oldEvent: []string{"nothing"}, when: []string{"after-gossip"}, emptyClientID: true},
	}
	rg := c.SubRng("c12", 0)
	for i := 0; i < c.Pick(30, 600); i++ {
		n := 1 + rg.Intn(3)
		sc := c12Scenario{nNodes: n}
		for k := 0; k < 3; k++ {
			sc.places = append(sc.places, rg.Intn(n))
		}
		for k := 0; k < 2; k++ {
			ev := events[rg.Intn(len(events))]
			wh := whens[rg.Intn(len(whens))]
			if wh == "at-shutdown-point" && (ev == "nothing" || ev == "subscribe" || ev == "ping") {
				wh = "after-gossip"
			}
			sc.oldEvent = append(sc.oldEvent, ev)
			sc.when = append(sc.when, wh)
		}
		scen = append(scen, sc)
	}
	// hook-using scenarios share process-global gates keyed by session id; ids are unique per scenario
	sem := make(chan struct{}, 12)
	var wg sync.WaitGroup
	for i, sc := range scen {
		wg.Add(1)
		sem <- struct{}{}
		go func(i int, sc c12Scenario) {
			defer wg.Done()
			defer func() { <-sem }()
			c12Run(c, i, sc)
		}(i, sc)
	}
	wg.Wait()
	for i := 0; i < c.Pick(12, 80); i++ {
		c12BounceBack(c, i)
	}
	for i, sc := range emptyIDScenarios {
		c12Run(c, 100000+i, sc)
	}
	k := 0
	for _, nn := range []int{1, 2, 3} {
		for _, same := range []bool{true, false} {
			if nn == 1 && !same {
				continue
			}
			for _, how := range []string{"DISCONNECT", "connection loss"} {
				k++
				c12NewerLeaves(c, k, nn, same, how)
			}
		}
	}
	c.Sample(map[string]interface{}{"scenario": fmt.Sprintf("%+v", scen[5])})
	c.Sample(map[string]interface{}{"scenario": fmt.Sprintf("%+v", scen[len(scen)-1])})
	c.Floor("resolutions_checked", 50)
	c.Floor("setup_point_reached", 5)
	c.Floor("shutdown_point_reached", 3)
}

// c12BounceBack: a client connects on node A, again on node B, then on node A a third time. Gossip is
// uneven: when the third CONNECT arrives, A has learned of the second session (the property's proviso)
// but the removal of the first one, issued by B, is still on its way. The third session is
// established, and once the slow message has arrived too every node resolves the identifier to it
// and the two displaced sessions end at their next keep-alive exchange.
func c12BounceBack(c *fw.Ctx, idx int) {
	fw.LogCase("C12 bounce-back %d", idx)
	cl := kit.NewCluster(kit.WorkDir("c12b"))
	defer cl.Close()
	auth := kit.PredictableAuth()
	nodes := []*kit.Node{}
	for i := 1; i <= 2; i++ {
		n, err := cl.AddNode(kit.NodeOpts{ID: uint64(i), Auth: auth})
		if err != nil {
			c.Inconclusive("cannot start node: " + err.Error())
			return
		}
		nodes = append(nodes, n)
	}
	a, b := nodes[0], nodes[1]
	clientID := fmt.Sprintf("bounce-%d", idx)
	ids := []string{clientID + "#1", clientID + "#2", clientID + "#3"}
	desc := fmt.Sprintf("client %q connects on n1, on n2, on n1 again; the removal of its first session reaches n1 only after the third CONNECT", clientID)
	wit := map[string]interface{}{"scenario": idx}
	connect := func(n *kit.Node, k int) *kit.Client {
		cc, code, err := n.Connect(kit.ConnectOpts{ClientID: clientID, KeepAlive: 600, Clean: true})
		if err != nil || code != 0 {
			c.Violation("newer-connection-refused", fmt.Sprintf("%s: connection %d was not established (code %d, %v)", desc, k, code, err), wit)
			return nil
		}
		if err := cc.Sub1(fmt.Sprintf("c12/s%d", k), 0); err != nil {
			c.Violation("newer-session-not-served", fmt.Sprintf("%s: connection %d could not subscribe: %v", desc, k, err), wit)
			cc.Close()
			return nil
		}
		return cc
	}
	c1 := connect(a, 1)
	if c1 == nil {
		return
	}
	defer c1.Close()
	cl.Quiesce()
	// what n2 says about the first session from now on (its removal) is slow on its way to n1
	cl.HoldGossipIf(1, func(payload []byte) bool {
		ev, err := kit.DecodeEvent(payload)
		if err != nil {
			return false
		}
		for _, s := range ev.SessionMetadatas {
			if s.SessionID == ids[0] && s.LastDeleted > s.LastAdded {
				return true
			}
		}
		return false
	})
	c2 := connect(b, 2)
	if c2 == nil {
		return
	}
	defer c2.Close()
	cl.Quiesce()
	if _, err := a.State.SessionMetadatas().Get(ids[1]); err != nil {
		c.Inconclusive(desc + ": n1 has not learned of the second session")
		return
	}
	c3 := connect(a, 3)
	if c3 == nil {
		return
	}
	defer c3.Close()
	cl.Quiesce()
	c.Observe("bounce_back_held_messages", cl.ReleaseGossip(1))
	cl.Quiesce()
	// the displaced sessions' next keep-alive exchanges
	for k, old := range []*kit.Client{c1, c2} {
		if old.Closed() {
			continue
		}
		from := old.NumEvents()
		old.Send(kit.EncPingReq())
		closed := old.WaitClosed(10 * time.Second)
		for _, e := range old.Events()[from:] {
			if e.Pkt.Type == kit.PINGRESP {
				c.Violation("displaced-session-still-served", fmt.Sprintf("%s: after all gossip was delivered, session %d still answers PINGREQ", desc, k+1), wit)
				return
			}
		}
		if !closed {
			c.Violation("displaced-session-not-closed", fmt.Sprintf("%s: session %d was not disconnected after its keep-alive exchange", desc, k+1), wit)
			return
		}
		time.Sleep(20 * time.Millisecond)
		cl.Quiesce()
	}
	cl.Quiesce()
	for _, n := range nodes {
		live := []string{}
		for _, s := range n.State.SessionMetadatas().All() {
			if s.ClientID == clientID {
				live = append(live, s.SessionID)
			}
		}
		sort.Strings(live)
		c.Observe("resolutions_checked", 1)
		if len(live) != 1 || live[0] != ids[2] {
			c.Violation("identifier-resolves-to-old-session", fmt.Sprintf("%s: at quiescence node %d lists the live sessions %v for the identifier, want only %s", desc, n.ID, live, ids[2]), map[string]interface{}{"scenario": idx, "node": n.ID, "live": live})
			return
		}
	}
	if ok, _ := c3.Ping(kit.DefaultWait); !ok {
		c.Violation("newer-session-not-served", desc+": the newest session does not answer PINGREQ", wit)
		return
	}
	c.Case(fmt.Sprintf("bounce-back|%d", idx), true)
	c.Observe("bounce_back_scenarios", 1)
}
