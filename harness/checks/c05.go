package checks

import (
	"errors"
	"fmt"
	"math/rand"
	"strings"
	"sync"
	"time"

	"github.com/vx-labs/mqtt-protocol/packet"

	"wv/fw"
	"wv/kit"
)

// C05 — inbound publishes: stored before acknowledged; QoS 2 forwarded exactly once.

func init() {
	fw.Register("C05", fw.Spec{Run: runC05})
}

type c05Pkt struct {
	Kind string // P0 P1 P2 P2dup R Rrep T
	ID   int
	Tag  string
	Dup  bool // the PUBLISH carries the DUP flag although it is the first copy this session sees (a client retransmitting after it re-connected)
}

func (p c05Pkt) String() string {
	switch p.Kind {
	case "P2":
		if p.Dup {
			return fmt.Sprintf("P2(id=%d,%s,DUP flag set)", p.ID, p.Tag)
		}
		return fmt.Sprintf("P2(id=%d,%s)", p.ID, p.Tag)
	case "T":
		return "TIMEOUT-SWEEP"
	case "R", "Rrep":
		return fmt.Sprintf("%s(%d)", p.Kind, p.ID)
	default:
		return fmt.Sprintf("%s(id=%d,%s)", p.Kind, p.ID, p.Tag)
	}
}

type c05Fault struct {
	LocalFailAt int   // k-th Append call on the publisher's node fails (0 = never)
	Unreachable []int // remote node indexes (1-based ids) unreachable
	RemoteFail  []int // remote node ids whose log rejects every append
	ReplyLost   []int // remote node ids whose first reply is lost after the node appended
}

func (f c05Fault) String() string {
	if len(f.ReplyLost) > 0 {
		return fmt.Sprintf("local-append-fails@%d unreachable=%v remote-log-fails=%v first-reply-lost=%v", f.LocalFailAt, f.Unreachable, f.RemoteFail, f.ReplyLost)
	}
	return fmt.Sprintf("local-append-fails@%d unreachable=%v remote-log-fails=%v", f.LocalFailAt, f.Unreachable, f.RemoteFail)
}

func c05GenSeq(rg *rand.Rand, s int) []c05Pkt {
	n := 3 + rg.Intn(6)
	seq := []c05Pkt{}
	nextID := 10
	tagN := 0
	pending := []int{}   // QoS 2 ids awaiting PUBREL (client view)
	completed := []int{} // QoS 2 ids already released
	tags := map[int]string{}
	newTag := func() string { tagN++; return fmt.Sprintf("c05-%d-t%d", s, tagN) }
	for len(seq) < n {
		r := rg.Intn(100)
		switch {
		case r < 6:
			seq = append(seq, c05Pkt{Kind: "P0", Tag: newTag()})
		case r < 12:
			// retain flag + empty payload (clears the retained slot AND is a message): recognised by its topic
			nextID++
			tagN++
			seq = append(seq, c05Pkt{Kind: "P1e", ID: nextID, Tag: fmt.Sprintf("topic:_default/c05/e-%d-%d", s, tagN)})
		case r < 35:
			nextID++
			seq = append(seq, c05Pkt{Kind: "P1", ID: nextID, Tag: newTag()})
		case r < 60:
			nextID++
			t := newTag()
			tags[nextID] = t
			pending = append(pending, nextID)
			seq = append(seq, c05Pkt{Kind: "P2", ID: nextID, Tag: t, Dup: rg.Intn(4) == 0})
		case r < 80 && len(pending) > 0:
			i := rg.Intn(len(pending))
			id := pending[i]
			pending = append(pending[:i], pending[i+1:]...)
			completed = append(completed, id)
			seq = append(seq, c05Pkt{Kind: "R", ID: id})
		case r < 88 && len(completed) > 0:
			seq = append(seq, c05Pkt{Kind: "Rrep", ID: completed[rg.Intn(len(completed))]})
		case r < 94 && len(pending) > 0:
			seq = append(seq, c05Pkt{Kind: "T"})
			completed = append(completed, pending...) // released later = not a handshake any more
			pending = nil
		case r < 100 && len(pending) > 0 && len(seq) == n-1:
			// repeated PUBLISH for a pending identifier: last packet only (the broker may drop the session)
			id := pending[rg.Intn(len(pending))]
			seq = append(seq, c05Pkt{Kind: "P2dup", ID: id, Tag: tags[id]})
		}
	}
	return seq
}

var errInjected = errors.New("injected log write failure")

// c05RecTag identifies a log record: by its payload, or by its topic when the payload is empty.
func c05RecTag(r kit.AppendRecord) string {
	if len(r.Payload) == 0 {
		return "topic:" + r.Topic
	}
	return string(r.Payload)
}

type c05Result struct {
	localAttempts int
	ok            bool
}

// c05Run executes one packet sequence under one fault pattern on a fresh cluster.
func c05Run(c *fw.Ctx, s int, nNodes int, seq []c05Pkt, fault c05Fault) c05Result {
	res := c05Result{}
	cl := kit.NewCluster(kit.WorkDir("c05"))
	defer cl.Close()
	nodes := []*kit.Node{}
	for i := 1; i <= nNodes; i++ {
		n, err := cl.AddNode(kit.NodeOpts{ID: uint64(i), Auth: kit.TenantAuth()})
		if err != nil {
			c.Inconclusive("cannot start node: " + err.Error())
			return res
		}
		nodes = append(nodes, n)
	}
	for i, n := range nodes {
		w, err := n.MustConnect(kit.ConnectOpts{ClientID: fmt.Sprintf("watch%d", i), KeepAlive: 600, Clean: true})
		if err != nil {
			c.Inconclusive("connect: " + err.Error())
			return res
		}
		defer w.Close()
		if err := w.Sub1("c05/#", 0); err != nil {
			c.Inconclusive("subscribe: " + err.Error())
			return res
		}
	}
	cl.Quiesce()
	pub, err := nodes[0].MustConnect(kit.ConnectOpts{ClientID: "publisher", KeepAlive: 600, Clean: true})
	if err != nil {
		c.Inconclusive("connect: " + err.Error())
		return res
	}
	defer pub.Close()
	// a second client, and a third one with the publisher's own client identifier in another mount point, hold unreleased QoS 2 publishes with the SAME identifiers the first client is
	// going to use: identifiers are per session, so nothing the first client does may forward them
	other, err := nodes[0].MustConnect(kit.ConnectOpts{ClientID: "other-publisher", KeepAlive: 600, Clean: true})
	if err != nil {
		c.Inconclusive("connect: " + err.Error())
		return res
	}
	defer other.Close()
	otherTags := map[string]bool{}
	for _, p := range seq {
		if p.Kind == "P2" || p.Kind == "P1" {
			tag := fmt.Sprintf("other-%d-%d", s, p.ID)
			otherTags[tag] = true
			from := other.NumEvents()
			other.Send(kit.EncPublish("c05/t", []byte(tag), 2, false, false, p.ID))
			if _, _, err := other.WaitFor(from, kit.DefaultWait, func(e kit.Event) bool { return e.Pkt.Type == kit.PUBREC && e.Pkt.ID == p.ID }); err != nil {
				c.Inconclusive(fmt.Sprintf("second client: no PUBREC: %v", err))
				return res
			}
		}
	}
	// a third client has the SAME client identifier as the publisher, in another mount point (with a watcher
	// of its own there), and also holds unreleased QoS 2 publishes with the same packet identifiers
	twinWatch, err := nodes[0].MustConnect(kit.ConnectOpts{ClientID: "twin-watch", KeepAlive: 600, Clean: true, User: "tX"})
	if err != nil {
		c.Inconclusive("connect: " + err.Error())
		return res
	}
	defer twinWatch.Close()
	twinWatch.Sub1("c05/#", 0)
	twin, err := nodes[0].MustConnect(kit.ConnectOpts{ClientID: "publisher", KeepAlive: 600, Clean: true, User: "tX"})
	if err != nil {
		c.Inconclusive("connect: " + err.Error())
		return res
	}
	defer twin.Close()
	for _, p := range seq {
		if p.Kind == "P2" || p.Kind == "P1" {
			tag := fmt.Sprintf("twin-%d-%d", s, p.ID)
			otherTags[tag] = true
			from := twin.NumEvents()
			twin.Send(kit.EncPublish("c05/t", []byte(tag), 2, false, false, p.ID))
			if _, _, err := twin.WaitFor(from, kit.DefaultWait, func(e kit.Event) bool { return e.Pkt.Type == kit.PUBREC && e.Pkt.ID == p.ID }); err != nil {
				c.Inconclusive(fmt.Sprintf("same-named client of another mount point: no PUBREC: %v", err))
				return res
			}
		}
	}
	// faults
	if fault.LocalFailAt > 0 {
		k := fault.LocalFailAt
		nodes[0].Log.SetFail(func(p *packet.Publish, nth int) error {
			if nth == k {
				return errInjected
			}
			return nil
		})
	}
	badRemote := map[int]bool{}
	for _, id := range fault.Unreachable {
		cl.SetUnreachable(uint64(id), true)
		badRemote[id] = true
	}
	for _, id := range fault.RemoteFail {
		nodes[id-1].Log.SetFail(func(p *packet.Publish, nth int) error { return errInjected })
		badRemote[id] = true
	}
	for _, id := range fault.ReplyLost {
		cl.LoseReplies(uint64(id), 1)
	}
	remotes := nNodes - 1
	desc := fmt.Sprintf("%d node(s), packets %v, faults {%s}", nNodes, seq, fault)
	wit := func(extra map[string]interface{}) map[string]interface{} {
		out := map[string]interface{}{"scenario": s, "nodes": nNodes, "packets": fmt.Sprint(seq), "faults": fault.String()}
		for k, v := range extra {
			out[k] = v
		}
		return out
	}

	type fwd struct { // one expected forwarding
		tag        string
		localNth   int  // index of the local Append call
		allOK      bool // every destination write succeeds
		ackType    int
		ackID      int
		handshake2 bool
		unjudged   bool
	}
	forwards := []fwd{}
	pending := map[int]string{}
	localCalls, rpcCalls := 0, 0
	alive := true
	// expectForward registers the expected effects of one forwarding and waits for its attempts
	expectForward := func(tag string, ackType, ackID int, from int) bool {
		localCalls++
		rpcCalls += remotes
		f := fwd{tag: tag, localNth: localCalls, ackType: ackType, ackID: ackID}
		f.allOK = !(fault.LocalFailAt == localCalls) && len(badRemote) == 0
		f.unjudged = len(fault.ReplyLost) > 0 && localCalls == 1 // the forwarding whose reply is lost: the acknowledgement is not judged
		if !waitCount(func() int { return nodes[0].Log.Calls() }, localCalls, 30*time.Second) {
			c.Violation("not-forwarded", fmt.Sprintf("%s: %s was never offered to the publisher node's log", desc, tag), wit(nil))
			return false
		}
		if !waitCount(func() int { return len(cl.RPCLog()) }, rpcCalls, 30*time.Second) {
			c.Violation("not-forwarded-remote", fmt.Sprintf("%s: %s reached only %d of %d remote calls", desc, tag, len(cl.RPCLog()), rpcCalls), wit(nil))
			return false
		}
		if f.allOK && ackType != 0 && !f.unjudged {
			if _, _, err := pub.WaitFor(from, kit.DefaultWait, func(e kit.Event) bool { return e.Pkt.Type == ackType && e.Pkt.ID == ackID }); err != nil {
				c.Violation("ack-missing", fmt.Sprintf("%s: every write of %s succeeded but no %s(%d) arrived: %v", desc, tag, kit.TypeName(ackType), ackID, err), wit(nil))
				return false
			}
		}
		forwards = append(forwards, f)
		return true
	}
	far := time.Now()
	for _, p := range seq {
		if !alive {
			break
		}
		from := pub.NumEvents()
		switch p.Kind {
		case "P0":
			pub.Send(kit.EncPublish("c05/t", []byte(p.Tag), 0, false, false, 0))
			if !expectForward(p.Tag, 0, 0, from) {
				return res
			}
		case "P1":
			pub.Send(kit.EncPublish("c05/t", []byte(p.Tag), 1, false, false, p.ID))
			if !expectForward(p.Tag, kit.PUBACK, p.ID, from) {
				return res
			}
		case "P1e":
			pub.Send(kit.EncPublish(strings.TrimPrefix(p.Tag, "topic:_default/"), nil, 1, true, false, p.ID))
			if !expectForward(p.Tag, kit.PUBACK, p.ID, from) {
				return res
			}
		case "P2":
			pub.Send(kit.EncPublish("c05/t", []byte(p.Tag), 2, false, p.Dup, p.ID))
			if _, _, err := pub.WaitFor(from, kit.DefaultWait, func(e kit.Event) bool { return e.Pkt.Type == kit.PUBREC && e.Pkt.ID == p.ID }); err != nil {
				c.Violation("pubrec-missing", fmt.Sprintf("%s: no PUBREC(%d): %v", desc, p.ID, err), wit(nil))
				return res
			}
			pending[p.ID] = p.Tag
		case "P2dup":
			pub.Send(kit.EncPublish("c05/t", []byte(p.Tag), 2, false, true, p.ID))
			// the broker either answers PUBREC again or drops the session; either way nothing may be forwarded
			time.Sleep(30 * time.Millisecond)
			alive = false
		case "R":
			pub.Send(kit.EncPubRel(p.ID))
			tag, ok := pending[p.ID]
			if ok {
				delete(pending, p.ID)
				if !expectForward(tag, kit.PUBCOMP, p.ID, from) {
					return res
				}
				forwards[len(forwards)-1].handshake2 = true
			}
		case "Rrep":
			pub.Send(kit.EncPubRel(p.ID))
		case "T":
			// session barrier first: the PUBLISHes must have been registered before the sweep
			if ok, _ := pub.Ping(kit.DefaultWait); !ok {
				c.Inconclusive(desc + ": no PINGRESP before the timeout sweep")
				return res
			}
			far = far.Add(time.Hour)
			nodes[0].Ack.Expire(far)
			for id := range pending {
				delete(pending, id)
			}
			c.Observe("handshake_timeouts_forced", 1)
		}
	}
	// settle: session barrier (if the session is still there) and a grace for stray packets
	if alive {
		if ok, _ := pub.Ping(kit.DefaultWait); !ok && !pub.Closed() {
			c.Inconclusive(desc + ": no PINGRESP at the end")
			return res
		}
	}
	time.Sleep(40 * time.Millisecond)
	res.localAttempts = nodes[0].Log.Calls()

	// ---- verdicts ---------------------------------------------------------------------
	evs := pub.Events()
	// (a) per forwarding: acknowledgement iff every write succeeded, and after them
	expectedTagAttempts := map[string]int{}
	for _, f := range forwards {
		expectedTagAttempts[f.tag]++
		if f.ackType == 0 {
			continue
		}
		var ackSeq int64 = -1
		for _, e := range evs {
			if e.Pkt.Type == f.ackType && e.Pkt.ID == f.ackID {
				ackSeq = e.Seq
				break
			}
		}
		c.Observe("forwardings_checked", 1)
		if f.unjudged {
			c.Observe("forwardings_with_lost_reply", 1)
			continue
		}
		if !f.allOK {
			c.Observe("forwardings_with_failed_write", 1)
			if ackSeq >= 0 {
				c.Violation("acknowledged-despite-failed-write:"+map[bool]string{true: "local", false: "remote"}[fault.LocalFailAt == f.localNth],
					fmt.Sprintf("%s: %s was acknowledged with %s(%d) although a destination write failed", desc, f.tag, kit.TypeName(f.ackType), f.ackID), wit(map[string]interface{}{"tag": f.tag}))
			}
			continue
		}
		if ackSeq < 0 {
			continue // reported as ack-missing above
		}
		for ni, n := range nodes {
			stored := false
			for _, r := range n.Log.Records() {
				if c05RecTag(r) == f.tag && r.Err == nil && r.SeqRet < ackSeq {
					stored = true
				}
			}
			if !stored {
				c.Violation("acknowledged-before-stored", fmt.Sprintf("%s: %s(%d) for %s was read by the client before node %d's log had accepted the message", desc, kit.TypeName(f.ackType), f.ackID, f.tag, ni+1), wit(map[string]interface{}{"tag": f.tag, "node": ni + 1}))
			}
		}
	}
	// (b) append attempts per tag on the publisher's node = expected forwardings (QoS 2: completed handshakes)
	got := map[string]int{}
	for _, r := range nodes[0].Log.Records() {
		got[c05RecTag(r)]++
	}
	allTags := map[string]bool{}
	for _, p := range seq {
		if p.Tag != "" {
			allTags[p.Tag] = true
		}
	}
	for tag := range allTags {
		c.Observe("tags_checked", 1)
		if got[tag] != expectedTagAttempts[tag] {
			kind := "forwarded-without-handshake"
			if got[tag] < expectedTagAttempts[tag] {
				kind = "forwarding-missing"
			} else if expectedTagAttempts[tag] > 0 {
				kind = "forwarded-more-than-once"
			}
			c.Violation(kind, fmt.Sprintf("%s: %s was offered to the log %d time(s), want %d", desc, tag, got[tag], expectedTagAttempts[tag]), wit(map[string]interface{}{"tag": tag, "appends": got[tag], "expected": expectedTagAttempts[tag]}))
		}
	}
	// (b') no node's log accepted a message more often than it was forwarded
	for ni := 1; ni < len(nodes); ni++ {
		acc := map[string]int{}
		for _, r := range nodes[ni].Log.Records() {
			if r.Err == nil {
				acc[c05RecTag(r)]++
			}
		}
		for tag := range allTags {
			if acc[tag] > expectedTagAttempts[tag] {
				c.Violation("forwarded-more-than-once:remote", fmt.Sprintf("%s: %s was appended %d time(s) to node %d's log, forwarded %d time(s)", desc, tag, acc[tag], ni+1, expectedTagAttempts[tag]), wit(map[string]interface{}{"tag": tag, "node": ni + 1, "appends": acc[tag], "expected": expectedTagAttempts[tag]}))
			}
		}
	}
	for tag := range otherTags {
		c.Observe("tags_checked", 1)
		if got[tag] != 0 {
			c.Violation("forwarded-other-sessions-pending-publish", fmt.Sprintf("%s: %s, an unreleased QoS 2 publish of ANOTHER session with the same packet identifier, was offered to the log %d time(s)", desc, tag, got[tag]), wit(map[string]interface{}{"tag": tag}))
		}
	}
	for _, e := range twin.Events() {
		if e.Pkt.Type == kit.PUBCOMP {
			c.Violation("stray-acknowledgement", fmt.Sprintf("%s: the same-named client of another mount point received %s for a publish it never released", desc, e.Pkt), wit(nil))
		}
	}
	for _, e := range other.Events() {
		if e.Pkt.Type == kit.PUBCOMP {
			c.Violation("stray-acknowledgement", fmt.Sprintf("%s: the second client received %s for a publish it never released", desc, e.Pkt), wit(nil))
		}
	}
	// (c) no acknowledgement that belongs to no successful forwarding
	for _, e := range evs {
		if e.Pkt.Type != kit.PUBACK && e.Pkt.Type != kit.PUBCOMP {
			continue
		}
		ok := false
		for _, f := range forwards {
			if f.ackType == e.Pkt.Type && f.ackID == e.Pkt.ID && f.allOK {
				ok = true
			}
		}
		if !ok {
			known := false
			for _, f := range forwards {
				if f.ackType == e.Pkt.Type && f.ackID == e.Pkt.ID {
					known = true
				}
			}
			if !known {
				c.Violation("stray-acknowledgement", fmt.Sprintf("%s: unexpected %s", desc, e.Pkt), wit(nil))
			}
		}
	}
	res.ok = true
	return res
}

// c05Gate: an acknowledgement that arrives while the log write is still blocked is a
// violation however fast or slow the machine is.
func c05Gate(c *fw.Ctx, i int) {
	cl := kit.NewCluster(kit.WorkDir("c05g"))
	defer cl.Close()
	n, err := cl.AddNode(kit.NodeOpts{ID: 1})
	if err != nil {
		c.Inconclusive("cannot start node: " + err.Error())
		return
	}
	w, err := n.MustConnect(kit.ConnectOpts{ClientID: "w", KeepAlive: 600, Clean: true})
	if err != nil {
		c.Inconclusive("connect: " + err.Error())
		return
	}
	defer w.Close()
	w.Sub1("c05/#", 0)
	pub, err := n.MustConnect(kit.ConnectOpts{ClientID: "p", KeepAlive: 600, Clean: true})
	if err != nil {
		c.Inconclusive("connect: " + err.Error())
		return
	}
	defer pub.Close()
	qos := 1 + i%2
	n.Log.CloseGate()
	from := pub.NumEvents()
	ackType := kit.PUBACK
	if qos == 1 {
		pub.Send(kit.EncPublish("c05/t", []byte("gated"), 1, false, false, 7))
	} else {
		pub.Send(kit.EncPublish("c05/t", []byte("gated"), 2, false, false, 7))
		pub.WaitFor(from, kit.DefaultWait, func(e kit.Event) bool { return e.Pkt.Type == kit.PUBREC })
		pub.Send(kit.EncPubRel(7))
		ackType = kit.PUBCOMP
	}
	if !waitCount(func() int { return n.Log.Calls() }, 1, 30*time.Second) {
		n.Log.OpenGate()
		c.Violation("not-forwarded", "gated scenario: the publish was never offered to the log", nil)
		return
	}
	time.Sleep(time.Duration(20+10*(i%5)) * time.Millisecond)
	early := false
	for _, e := range pub.Events()[from:] {
		if e.Pkt.Type == ackType {
			early = true
		}
	}
	n.Log.OpenGate()
	if early {
		c.Violation("acknowledged-before-stored", fmt.Sprintf("gated scenario (QoS %d): %s was read while the log write was still blocked", qos, kit.TypeName(ackType)), map[string]interface{}{"qos": qos})
		return
	}
	if _, _, err := pub.WaitFor(from, kit.DefaultWait, func(e kit.Event) bool { return e.Pkt.Type == ackType && e.Pkt.ID == 7 }); err != nil {
		c.Violation("ack-missing", fmt.Sprintf("gated scenario: no %s after the log write was released: %v", kit.TypeName(ackType), err), nil)
		return
	}
	c.Observe("gated_acks_checked", 1)
	c.Case(fmt.Sprintf("gate|%d", i), true)
}

// c05Reuse: QoS 2 handshake with identifier n completes; 1.5 s later the client starts a new QoS 2
// publish with the same identifier (legal). A sweep whose time lies after the FIRST exchange's
// deadline but before the second one's must not touch the second exchange: its PUBREL must still be
// honoured (forwarded once, PUBCOMP).
func c05Reuse(c *fw.Ctx, i int) {
	fw.LogCase("C05 identifier reuse %d", i)
	cl := kit.NewCluster(kit.WorkDir("c05r"))
	defer cl.Close()
	n, err := cl.AddNode(kit.NodeOpts{ID: 1})
	if err != nil {
		c.Inconclusive("cannot start node: " + err.Error())
		return
	}
	w, err := n.MustConnect(kit.ConnectOpts{ClientID: "w", KeepAlive: 600, Clean: true})
	if err != nil {
		c.Inconclusive("connect: " + err.Error())
		return
	}
	defer w.Close()
	w.Sub1("c05/#", 0)
	pub, err := n.MustConnect(kit.ConnectOpts{ClientID: "p", KeepAlive: 600, Clean: true})
	if err != nil {
		c.Inconclusive("connect: " + err.Error())
		return
	}
	defer pub.Close()
	id := 21 + i
	if acked, err := pub.PublishID("c05/t", []byte("first"), 2, false, id, kit.DefaultWait); !acked {
		c.Inconclusive(fmt.Sprintf("first handshake failed: %v", err))
		return
	}
	t1 := time.Now()
	time.Sleep(1500 * time.Millisecond)
	from := pub.NumEvents()
	pub.Send(kit.EncPublish("c05/t", []byte("second"), 2, false, false, id))
	if _, _, err := pub.WaitFor(from, kit.DefaultWait, func(e kit.Event) bool { return e.Pkt.Type == kit.PUBREC && e.Pkt.ID == id }); err != nil {
		c.Violation("pubrec-missing", "identifier reuse: no PUBREC for the second publish: "+err.Error(), nil)
		return
	}
	t2 := time.Now()
	if t2.Sub(t1) > 2500*time.Millisecond {
		c.Observe("reuse_scenarios_without_verdict_slow_machine", 1)
		return
	}
	// between the first exchange's deadline (t1+3 s at the latest) and the second one's (t2+3 s at the earliest)
	n.Ack.Expire(t1.Add(3*time.Second + (t2.Sub(t1))/2))
	from = pub.NumEvents()
	pub.Send(kit.EncPubRel(id))
	_, _, err = pub.WaitFor(from, kit.DefaultWait, func(e kit.Event) bool { return e.Pkt.Type == kit.PUBCOMP && e.Pkt.ID == id })
	c.Observe("reuse_scenarios_judged", 1)
	c.Case(fmt.Sprintf("reuse|%d", i), true)
	if err != nil {
		c.Violation("handshake-cancelled-by-stale-deadline", fmt.Sprintf("identifier reuse: the second QoS 2 publish with identifier %d (started 1.5 s after the first one completed) got no PUBCOMP for its PUBREL after a sweep that only the first exchange's deadline had passed", id), map[string]interface{}{"id": id})
		return
	}
	got := 0
	for _, r := range n.Log.Records() {
		if string(r.Payload) == "second" {
			got++
		}
	}
	if got != 1 {
		c.Violation("forwarding-missing", fmt.Sprintf("identifier reuse: the second publish was offered to the log %d time(s), want 1", got), nil)
	}
}

func runC05(c *fw.Ctx) {
	c.Level = "fault_enumeration"
	c.Rule = "seeded packet sequences of 3-8 packets from a publisher (PUBLISH QoS 0/1/2 with fresh identifiers, QoS 1 with the retain flag and an empty payload, PUBREL for a pending identifier, repeated PUBREL for a completed one, forced handshake-timeout sweep, repeated PUBLISH for a pending identifier as last packet) on 1-3 nodes that all host a matching subscriber, while a second client on the same node holds unreleased QoS 2 publishes with the same packet identifiers; for each sequence EVERY single fault position is run on a fresh cluster: none, the k-th local log write fails for every k up to the number of writes of the fault-free run, each remote node unreachable, each remote node's log rejecting writes (thorough: also local x remote combinations). Observed with one global sequence counter: Append call/return per node, RPC call/return, packets read by the publisher. Oracle: an acknowledgement (PUBACK/PUBCOMP) is read only after a successful Append returned on every node, and never when a write failed; log offers per tag = completed PUBLISH->PUBREL handshakes (0 after PUBLISH alone or after a timed-out handshake, 1 after PUBREL, still 1 after repeated PUBREL). Gated scenarios: no acknowledgement while the log write is blocked. Identifier-reuse scenarios: a second QoS 2 publish reusing a completed handshake's identifier 1.5 s later survives a sweep placed between the two deadlines. Fault kinds also: the first reply of a remote node lost after it appended (no second append anywhere); shutdown scenarios: the publisher node's context is cancelled while the write to another node is pending (no acknowledgement). distinct = (nodes, sequence, fault); non-trivial = sequence contains a QoS>=1 forwarding"
	c.Assume("every node hosts a matching subscription known to the publisher's node (gossip barrier)")
	c.Assume("a session dropped by the broker after a repeated PUBLISH for a pending identifier is accepted; nothing may be forwarded for it")
	nSeq := c.Pick(36, 500)
	type job struct {
		s      int
		nNodes int
		seq    []c05Pkt
		fault  c05Fault
	}
	var mu sync.Mutex
	run := func(jobs []job) {
		sem := make(chan struct{}, 10)
		var wg sync.WaitGroup
		for _, j := range jobs {
			wg.Add(1)
			sem <- struct{}{}
			go func(j job) {
				defer wg.Done()
				defer func() { <-sem }()
				fw.LogCase("C05 seq %d nodes %d fault %s", j.s, j.nNodes, j.fault)
				r := c05Run(c, j.s, j.nNodes, j.seq, j.fault)
				nt := false
				for _, p := range j.seq {
					if p.Kind == "P1" || p.Kind == "R" || p.Kind == "P1e" {
						nt = true
					}
				}
				c.Case(fmt.Sprintf("%d|%v|%s", j.nNodes, j.seq, j.fault), nt && r.ok)
				mu.Lock()
				mu.Unlock()
			}(j)
		}
		wg.Wait()
	}
	// phase 1: fault-free runs tell how many local writes each sequence makes
	base := []job{}
	for s := 0; s < nSeq; s++ {
		rg := c.SubRng("c05", s)
		base = append(base, job{s: s, nNodes: 1 + s%3, seq: c05GenSeq(rg, s)})
	}
	attempts := make([]int, nSeq)
	{
		sem := make(chan struct{}, 10)
		var wg sync.WaitGroup
		for i := range base {
			wg.Add(1)
			sem <- struct{}{}
			go func(i int) {
				defer wg.Done()
				defer func() { <-sem }()
				j := base[i]
				fw.LogCase("C05 seq %d nodes %d fault-free", j.s, j.nNodes)
				r := c05Run(c, j.s, j.nNodes, j.seq, c05Fault{})
				attempts[i] = r.localAttempts
				c.Case(fmt.Sprintf("%d|%v|none", j.nNodes, j.seq), r.ok)
			}(i)
		}
		wg.Wait()
	}
	// phase 2: every single fault position
	faulty := []job{}
	for i, b := range base {
		for k := 1; k <= attempts[i]; k++ {
			faulty = append(faulty, job{b.s, b.nNodes, b.seq, c05Fault{LocalFailAt: k}})
		}
		for r := 2; r <= b.nNodes; r++ {
			faulty = append(faulty, job{b.s, b.nNodes, b.seq, c05Fault{Unreachable: []int{r}}})
			faulty = append(faulty, job{b.s, b.nNodes, b.seq, c05Fault{RemoteFail: []int{r}}})
			faulty = append(faulty, job{b.s, b.nNodes, b.seq, c05Fault{ReplyLost: []int{r}}})
			if !c.Quick() || i%4 == 0 {
				for k := 1; k <= attempts[i]; k++ {
					faulty = append(faulty, job{b.s, b.nNodes, b.seq, c05Fault{LocalFailAt: k, Unreachable: []int{r}}})
				}
			}
		}
		if b.nNodes == 3 {
			faulty = append(faulty, job{b.s, b.nNodes, b.seq, c05Fault{Unreachable: []int{2, 3}}})
		}
	}
	c.Observe("fault_patterns_enumerated", len(faulty))
	run(faulty)
	for i := 0; i < c.Pick(6, 40); i++ {
		c05Gate(c, i)
	}
	{
		var wg sync.WaitGroup
		for i := 0; i < c.Pick(3, 12); i++ {
			wg.Add(1)
			go func(i int) { defer wg.Done(); c05Reuse(c, i) }(i)
		}
		for i := 0; i < c.Pick(6, 30); i++ {
			wg.Add(1)
			go func(i int) { defer wg.Done(); c05Shutdown(c, i) }(i)
		}
		for i := 0; i < c.Pick(3, 12); i++ {
			wg.Add(1)
			go func(i int) { defer wg.Done(); c05Saturated(c, i) }(i)
		}
		wg.Wait()
	}
	if len(base) > 0 {
		c.Sample(map[string]interface{}{"nodes": base[0].nNodes, "packets": fmt.Sprint(base[0].seq), "fault_positions": attempts[0]})
		c.Sample(map[string]interface{}{"nodes": base[1].nNodes, "packets": fmt.Sprint(base[1].seq), "fault_positions": attempts[1]})
	}
	c.Floor("forwardings_with_failed_write", 20)
	c.Floor("forwardings_checked", 100)
}

// c05Shutdown: the publisher's node starts shutting down (its context is cancelled) while the write
// to another node that hosts a matching subscriber is still pending. The pending call is aborted: the
// message was not accepted by that node's log, so no acknowledgement may reach the publisher.
func c05Shutdown(c *fw.Ctx, i int) {
	fw.LogCase("C05 shutdown %d", i)
	cl := kit.NewCluster(kit.WorkDir("c05s"))
	defer cl.Close()
	n1, err := cl.AddNode(kit.NodeOpts{ID: 1})
	if err != nil {
		c.Inconclusive("cannot start node: " + err.Error())
		return
	}
	n2, err := cl.AddNode(kit.NodeOpts{ID: 2})
	if err != nil {
		c.Inconclusive("cannot start node: " + err.Error())
		return
	}
	w, err := n2.MustConnect(kit.ConnectOpts{ClientID: "w", KeepAlive: 600, Clean: true})
	if err != nil {
		c.Inconclusive("connect: " + err.Error())
		return
	}
	defer w.Close()
	w.Sub1("c05/#", i%2)
	cl.Quiesce()
	pub, err := n1.MustConnect(kit.ConnectOpts{ClientID: "p", KeepAlive: 600, Clean: true})
	if err != nil {
		c.Inconclusive("connect: " + err.Error())
		return
	}
	defer pub.Close()
	qos := 1 + i%2
	tag := fmt.Sprintf("c05-shutdown-%d", i)
	n2.Log.CloseGate()
	defer n2.Log.OpenGate()
	from := pub.NumEvents()
	pub.Send(kit.EncPublish("c05/t", []byte(tag), qos, false, false, 9))
	if qos == 2 {
		if _, _, err := pub.WaitFor(from, kit.DefaultWait, func(e kit.Event) bool { return e.Pkt.Type == kit.PUBREC && e.Pkt.ID == 9 }); err != nil {
			c.Inconclusive("no PUBREC")
			return
		}
		pub.Send(kit.EncPubRel(9))
	}
	// the remote node is inside its Append (blocked at the gate): the forwarding call is pending
	if !waitCount(func() int { return n2.Log.Calls() }, 1, 30*time.Second) {
		c.Inconclusive("the remote write never started")
		return
	}
	n1.CancelContext()
	time.Sleep(300 * time.Millisecond)
	n2.Log.SetFail(func(*packet.Publish, int) error { return errInjected }) // and the write it was blocked in fails
	n2.Log.OpenGate()
	time.Sleep(200 * time.Millisecond)
	c.Observe("shutdown_scenarios", 1)
	c.Case(fmt.Sprintf("shutdown|%d", i), true)
	for _, e := range pub.Events()[from:] {
		if (e.Pkt.Type == kit.PUBACK || e.Pkt.Type == kit.PUBCOMP) && e.Pkt.ID == 9 {
			c.Violation("acknowledged-despite-failed-write:remote-during-shutdown", fmt.Sprintf("shutdown scenario %d (QoS %d): the publisher's node was shutting down while the write to node 2 was pending; the call was aborted and node 2's log rejected the message, yet %s was sent", i, qos, e.Pkt),
				map[string]interface{}{"scenario": i, "qos": qos})
			return
		}
	}
}

// c05Saturated: every publish worker of the node is busy (its log takes long to accept a write) when
// the PUBREL of a QoS 2 handshake arrives. Whatever the broker does with that message, a PUBCOMP may
// only be sent once the message has been accepted by the log.
func c05Saturated(c *fw.Ctx, i int) {
	fw.LogCase("C05 saturated %d", i)
	cl := kit.NewCluster(kit.WorkDir("c05w"))
	defer cl.Close()
	n, err := cl.AddNode(kit.NodeOpts{ID: 1})
	if err != nil {
		c.Inconclusive("cannot start node: " + err.Error())
		return
	}
	w, err := n.MustConnect(kit.ConnectOpts{ClientID: "w", KeepAlive: 600, Clean: true})
	if err != nil {
		c.Inconclusive("connect: " + err.Error())
		return
	}
	defer w.Close()
	w.Sub1("c05/#", 0)
	filler, err := n.MustConnect(kit.ConnectOpts{ClientID: "filler", KeepAlive: 600, Clean: true})
	if err != nil {
		c.Inconclusive("connect: " + err.Error())
		return
	}
	defer filler.Close()
	pub, err := n.MustConnect(kit.ConnectOpts{ClientID: "p", KeepAlive: 600, Clean: true})
	if err != nil {
		c.Inconclusive("connect: " + err.Error())
		return
	}
	defer pub.Close()
	tag := fmt.Sprintf("c05-saturated-%d", i)
	from := pub.NumEvents()
	pub.Send(kit.EncPublish("c05/t", []byte(tag), 2, false, false, 9))
	if _, _, err := pub.WaitFor(from, kit.DefaultWait, func(e kit.Event) bool { return e.Pkt.Type == kit.PUBREC && e.Pkt.ID == 9 }); err != nil {
		c.Inconclusive("no PUBREC")
		return
	}
	n.Log.CloseGate()
	opened := false
	defer func() {
		if !opened {
			n.Log.OpenGate()
		}
	}()
	// QoS 0 traffic until every worker sits in the log (the number of workers is the broker's business:
	// keep feeding until the count of writes that have entered the log stops growing)
	entered := 0
	for k := 0; k < 60; k++ {
		filler.SendTimeout(kit.EncPublish("c05/fill", []byte(fmt.Sprintf("fill-%d-%d", i, k)), 0, false, false, 0), 200*time.Millisecond)
		if k%10 == 9 {
			time.Sleep(30 * time.Millisecond)
			if now := n.Log.Calls(); now == entered && now > 0 {
				break
			} else {
				entered = now
			}
		}
	}
	c.Observe("saturation_writes_blocked_in_log", n.Log.Calls())
	pub.Send(kit.EncPubRel(9))
	time.Sleep(1500 * time.Millisecond) // longer than any hand-off patience inside the broker
	compBefore := false
	for _, e := range pub.Events()[from:] {
		if e.Pkt.Type == kit.PUBCOMP && e.Pkt.ID == 9 {
			compBefore = true
		}
	}
	stored := false
	for _, r := range n.Log.Records() {
		if c05RecTag(r) == tag && r.Err == nil && r.SeqRet > 0 {
			stored = true
		}
	}
	n.Log.OpenGate()
	opened = true
	c.Observe("saturated_scenarios", 1)
	c.Case(fmt.Sprintf("saturated|%d", i), true)
	if compBefore && !stored {
		c.Violation("acknowledged-before-stored:workers-saturated", fmt.Sprintf("saturated scenario %d: with every publish worker blocked in the log, the PUBREL of a QoS 2 handshake was answered with PUBCOMP although no log had accepted %s", i, tag),
			map[string]interface{}{"scenario": i})
	}
}
