package checks

import "crypto/sha1"

func tailStrings(s []string, n int) []string {
	if len(s) <= n {
		return s
	}
	return s[len(s)-n:]
}

func sha1sum(b []byte) [20]byte { return sha1.Sum(b) }
