package checks

func tailStrings(s []string, n int) []string {
	if len(s) <= n {
		return s
	}
	return s[len(s)-n:]
}
