package checks

import (
	"crypto/sha1"
	"errors"
	"fmt"
	"strings"
	"sync"
	"time"

	"github.com/vx-labs/mqtt-protocol/packet"

	"wv/fw"
	"wv/kit"
)

// C02 — an acknowledged publish is never lost before reaching connected subscribers.

func init() {
	fw.Register("C02", fw.Spec{Run: runC02})
}

type c02Sent struct {
	tag   string
	topic string
	qos   int
	sum   [20]byte
	size  int
	acked bool
}

func c02Payload(tag string, size int) []byte {
	b := make([]byte, 0, len(tag)+1+size)
	b = append(b, tag...)
	b = append(b, '|')
	seed := sha1.Sum([]byte(tag))
	for len(b) < len(tag)+1+size {
		b = append(b, seed[:]...)
		seed = sha1.Sum(seed[:])
	}
	return b[:len(tag)+1+size]
}

func c02Tag(p []byte) string {
	if i := strings.IndexByte(string(p[:min(len(p), 64)]), '|'); i >= 0 {
		return string(p[:i])
	}
	return ""
}

func min(a, b int) int {
	if a < b {
		return a
	}
	return b
}

// c02Verify compares what each subscriber received with what was acknowledged.
func c02Verify(c *fw.Ctx, label string, subs []*kit.Client, subQos []int, sent []*c02Sent, lostKey string) {
	byTag := map[string]*c02Sent{}
	for _, s := range sent {
		byTag[s.tag] = s
	}
	for i, su := range subs {
		got := map[string]int{}
		for _, p := range su.Publishes() {
			tag := c02Tag(p.Payload)
			s := byTag[tag]
			if s == nil {
				continue
			}
			got[tag]++
			if sha1.Sum(p.Payload) != s.sum || p.Topic != s.topic {
				c.Violation("corrupted", fmt.Sprintf("%s: subscriber %d received %s on %q with %d bytes; published on %q with %d bytes, content differs", label, i, tag, p.Topic, len(p.Payload), s.topic, s.size),
					map[string]interface{}{"scenario": label, "tag": tag})
			}
		}
		lost := []string{}
		first := -1
		for idx, s := range sent {
			if s.acked && got[s.tag] == 0 {
				lost = append(lost, s.tag)
				if first < 0 {
					first = idx
				}
			}
			if s.acked {
				c.Observe("acked_deliveries_checked", 1)
			}
		}
		if len(lost) > 0 {
			key := lostKey
			if first == 0 && lostKey == "lost" {
				key = "lost:first-message-of-log"
			}
			c.Violation(key, fmt.Sprintf("%s: subscriber %d (QoS %d, connected and subscribed throughout) never received %d acknowledged message(s); first: %s (publish #%d of the scenario)", label, i, subQos[i], len(lost), lost[0], first),
				map[string]interface{}{"scenario": label, "subscriber": i, "lost": lost[:min(len(lost), 20)], "lost_count": len(lost), "first_lost_index": first})
		}
	}
}

// c02Barrier publishes a sentinel and waits until every subscriber has it.
func c02Barrier(c *fw.Ctx, label string, pub *kit.Client, subs []*kit.Client, topic string, seq int) bool {
	tag := fmt.Sprintf("SENTINEL-%d", seq)
	acked, err := pub.Publish(topic, []byte(tag+"|"), 1, false, kit.DefaultWait)
	if !acked {
		c.Inconclusive(fmt.Sprintf("%s: sentinel not acknowledged: %v", label, err))
		return false
	}
	for i, su := range subs {
		_, _, err := su.WaitFor(0, 90*time.Second, func(e kit.Event) bool {
			return e.Pkt.Type == kit.PUBLISH && strings.HasPrefix(string(e.Pkt.Payload), tag+"|")
		})
		if err != nil {
			if su.Closed() {
				c.Violation("subscriber-dropped", fmt.Sprintf("%s: subscriber %d was disconnected by the broker during the run", label, i), nil)
			} else {
				// the sentinel is itself an acknowledged publish to a connected, subscribed session
				c.Violation("lost:sentinel", fmt.Sprintf("%s: the acknowledged sentinel publish was not written to connected subscriber %d within 90 s (%v); %d other publishes had reached it", label, i, err, len(su.Publishes())), map[string]interface{}{"scenario": label, "subscriber": i})
			}
			return false
		}
	}
	return true
}

func c02Stream(c *fw.Ctx, label string, n *kit.Node, nPub, nSub, perPub int, seedIdx int, more ...*kit.Node) bool {
	all := append([]*kit.Node{n}, more...) // subscriber i and publisher p are placed on node i (p) mod len(all)
	rg := c.SubRng("c02/"+label, seedIdx)
	topicBase := "c02/" + label
	subs := []*kit.Client{}
	subQos := []int{}
	for i := 0; i < nSub; i++ {
		q := i % 3
		cc, err := all[i%len(all)].MustConnect(kit.ConnectOpts{ClientID: fmt.Sprintf("%s-sub%d", label, i), KeepAlive: 600, Clean: true})
		if err != nil {
			c.Inconclusive(label + ": subscriber connect: " + err.Error())
			return false
		}
		defer cc.Close()
		if err := cc.Sub1(topicBase+"/#", q); err != nil {
			c.Inconclusive(label + ": subscribe: " + err.Error())
			return false
		}
		subs = append(subs, cc)
		subQos = append(subQos, q)
	}
	var mu sync.Mutex
	sent := []*c02Sent{}
	var wg sync.WaitGroup
	pubs := []*kit.Client{}
	failed := false
	for p := 0; p < nPub; p++ {
		pc, err := all[(p+1)%len(all)].MustConnect(kit.ConnectOpts{ClientID: fmt.Sprintf("%s-pub%d", label, p), KeepAlive: 600, Clean: true})
		if err != nil {
			c.Inconclusive(label + ": publisher connect: " + err.Error())
			return false
		}
		defer pc.Close()
		pubs = append(pubs, pc)
	}
	if len(all) > 1 {
		n.C.Quiesce() // gossip barrier: every node knows every subscription
	}
	// the very first publish of the scenario is sent alone so that it is the first log entry
	sizes := func(i int) int {
		switch {
		case i%397 == 5:
			return 1 << 20
		case i%97 == 3:
			return 64 << 10
		case i%7 == 0:
			return 0
		default:
			return 8 + (i*37)%200
		}
	}
	first := &c02Sent{tag: label + "-first", topic: topicBase + "/first", qos: 1}
	{
		pl := c02Payload(first.tag, 16)
		first.sum, first.size = sha1.Sum(pl), len(pl)
		acked, _ := pubs[0].Publish(first.topic, pl, 1, false, kit.DefaultWait)
		first.acked = acked
		sent = append(sent, first)
	}
	for p := 0; p < nPub; p++ {
		wg.Add(1)
		go func(p int) {
			defer wg.Done()
			prg := c.SubRng(fmt.Sprintf("c02/%s/pub%d", label, p), seedIdx)
			for i := 0; i < perPub; i++ {
				qos := 1 + prg.Intn(2)
				if prg.Intn(10) == 0 {
					qos = 0
				}
				s := &c02Sent{tag: fmt.Sprintf("%s-p%d-%d", label, p, i), topic: fmt.Sprintf("%s/p%d/%d", topicBase, p, i%5), qos: qos}
				pl := c02Payload(s.tag, sizes(i+p*13))
				s.sum, s.size = sha1.Sum(pl), len(pl)
				acked, err := pubs[p].Publish(s.topic, pl, qos, false, 60*time.Second)
				s.acked = acked
				mu.Lock()
				sent = append(sent, s)
				if qos > 0 && !acked {
					failed = true
					c.Inconclusive(fmt.Sprintf("%s: publisher %d message %d (QoS %d) was not acknowledged: %v", label, p, i, qos, err))
				}
				mu.Unlock()
				if qos > 0 && !acked {
					return
				}
			}
		}(p)
	}
	wg.Wait()
	_ = rg
	if failed {
		return false
	}
	if !c02Barrier(c, label, pubs[0], subs, topicBase+"/sentinel", 1) {
		return false
	}
	c02Verify(c, label, subs, subQos, sent, "lost")
	c.Case(fmt.Sprintf("%s|pubs=%d|subs=%d|n=%d", label, nPub, nSub, len(sent)), len(sent) > 1)
	c.Observe("messages_published", len(sent))
	return true
}

func runC02(c *fw.Ctx) {
	c.Rule = "(also: PUBRELs arriving after the inbound QoS 2 handshake timed out - a PUBCOMP obliges delivery; two nodes with the publisher node's own log failing for a while as forwarding works - what is acknowledged must reach the local subscriber) publish streams against a broker node with the real on-disk commit log: P in {1,3} concurrent publishers x S in {1,3} subscribers (subscription QoS 0/1/2, full acknowledgement handshakes), publish QoS 0/1/2 mix, payloads 0 B - 1 MiB with a content hash in the tag; starting from an empty log (the first message is offset 0), long enough to cross segment rolls (500, 1000, ...) and the truncation at offset 2000 (quick 2200 messages; thorough 6000), and from a pre-filled log with a stored consumer offset after node restarts on the same directory; plus the scenario in which a self-subscribed QoS 2 publisher's inbound exchange and an outbound delivery to it use the same packet identifier, a QoS 2 subscriber that withholds PUBCOMP so that deliveries overlap, and retained publishes with an empty payload. Oracle: after a sentinel barrier every acknowledged QoS>=1 publish was received >=1 times by every subscriber that stayed connected, topic and payload intact. distinct = scenario (shape, restart position); non-trivial = >1 message"
	c.Assume("QoS 0 publishes are not acknowledged and therefore not required; duplicates are allowed")
	c.Assume("delivery barrier: a publisher that waits for each PUBACK appends in order; log consumer and writer are FIFO, so a sentinel published after everything else is written last")

	base := kit.WorkDir("c02")
	// ---- A: long stream from an empty log ---------------------------------------------
	{
		cl := kit.NewCluster(base + "/a")
		n, err := cl.AddNode(kit.NodeOpts{ID: 1})
		if err != nil {
			c.Inconclusive("cannot start node: " + err.Error())
			return
		}
		fw.LogCase("C02 stream-empty-log")
		per := c.Pick(740, 2000)
		c02Stream(c, "empty3x3", n, 3, 3, per, 0)
		cl.Close()
		c.Sample(map[string]interface{}{"scenario": "empty3x3", "publishers": 3, "subscribers": 3, "messages": 3*per + 1, "crosses": "segment rolls every 500 entries, truncation at offset 2000"})
	}
	// ---- B: small streams, 1x1 / 3x1 / 1x3, each on a fresh node ---------------------
	shapes := [][2]int{{1, 1}, {3, 1}, {1, 3}}
	for i, sh := range shapes {
		cl := kit.NewCluster(fmt.Sprintf("%s/b%d", base, i))
		n, err := cl.AddNode(kit.NodeOpts{ID: 1})
		if err != nil {
			c.Inconclusive("cannot start node: " + err.Error())
			return
		}
		fw.LogCase("C02 small stream %v", sh)
		c02Stream(c, fmt.Sprintf("small%dx%d", sh[0], sh[1]), n, sh[0], sh[1], c.Pick(40, 300), i)
		cl.Close()
	}
	// ---- C: restarts on the same directory (pre-filled log, stored consumer offset) ----
	{
		rounds := c.Pick(3, 8)
		cl := kit.NewCluster(base + "/c")
		dir := ""
		for r := 0; r < rounds; r++ {
			n, err := cl.AddNode(kit.NodeOpts{ID: 1, Dir: dir})
			if err != nil {
				c.Inconclusive("cannot restart node: " + err.Error())
				break
			}
			dir = n.Dir
			fw.LogCase("C02 restart round %d", r)
			ok := c02Stream(c, fmt.Sprintf("restart%d", r), n, 1+r%2*2, 2, c.Pick(130, 400), r)
			n.Stop(true)
			if !ok {
				break
			}
			c.Observe("restarts_on_same_log", 1)
		}
		cl.Close()
		c.Sample(map[string]interface{}{"scenario": "restart", "rounds": rounds, "note": "each round reopens the same data directory: pre-filled log + stored consumer offset"})
	}
	// ---- D: same packet identifier inbound (QoS 2) and outbound -------------------------
	c02IDCollision(c, base)
	// ---- F: a recipient whose connection rejects writes; a subscriber that joins between two
	// publishes on the same topic
	c02Fanout(c, base)
	// ---- E: overlapping QoS 2 deliveries (PUBCOMP withheld) and retained publishes with empty payload
	c02Overlap(c, base)
	// ---- G: PUBREL after the inbound handshake timed out; the publisher node's own log failing while
	// the forwarding to another node works
	c02LatePubRel(c, base)
	c02LocalLogFault(c, base)
	// ---- H: the same kind of stream over two nodes (publishers and subscribers on both; every message
	// goes through both logs, which cross their segment rolls at different moments)
	{
		cl := kit.NewCluster(base + "/h")
		n1, err1 := cl.AddNode(kit.NodeOpts{ID: 1})
		n2, err2 := cl.AddNode(kit.NodeOpts{ID: 2})
		if err1 != nil || err2 != nil {
			c.Inconclusive("cannot start nodes")
		} else {
			fw.LogCase("C02 two-node stream")
			c02Stream(c, "twonodes2x4", n1, 2, 4, c.Pick(330, 1300), 7, n2)
		}
		cl.Close()
	}
	c.Floor("acked_deliveries_checked", 500)
}

// c02IDCollision: client X subscribes to t and starts an inbound QoS 2 publish
// with identifier n but withholds PUBREL; another client publishes to t so
// that the broker's outbound delivery to X draws the same identifier n.
func c02IDCollision(c *fw.Ctx, base string) {
	for _, subQos := range []int{1, 2} {
		for _, inboundID := range []int{1, 2, 3} {
			label := fmt.Sprintf("idcollision-q%d-id%d", subQos, inboundID)
			fw.LogCase("C02 %s", label)
			cl := kit.NewCluster(base + "/d-" + label)
			n, err := cl.AddNode(kit.NodeOpts{ID: 1})
			if err != nil {
				c.Inconclusive("cannot start node: " + err.Error())
				return
			}
			func() {
				defer cl.Close()
				x, err := n.MustConnect(kit.ConnectOpts{ClientID: "x", KeepAlive: 600, Clean: true})
				if err != nil {
					c.Inconclusive(label + ": connect: " + err.Error())
					return
				}
				defer x.Close()
				y, err := n.MustConnect(kit.ConnectOpts{ClientID: "y", KeepAlive: 600, Clean: true})
				if err != nil {
					c.Inconclusive(label + ": connect: " + err.Error())
					return
				}
				defer y.Close()
				z, err := n.MustConnect(kit.ConnectOpts{ClientID: "z", KeepAlive: 600, Clean: true})
				if err != nil {
					c.Inconclusive(label + ": connect: " + err.Error())
					return
				}
				defer z.Close()
				if err := z.Sub1("c02x/t", 0); err != nil {
					c.Inconclusive(label + ": subscribe: " + err.Error())
					return
				}
				if err := x.Sub1("c02x/t", subQos); err != nil {
					c.Inconclusive(label + ": subscribe: " + err.Error())
					return
				}
				// inbound QoS 2 exchange, PUBREL withheld
				from := x.NumEvents()
				x.Send(kit.EncPublish("c02x/other", []byte("inbound|"), 2, false, false, inboundID))
				if _, _, err := x.WaitFor(from, kit.DefaultWait, func(e kit.Event) bool { return e.Pkt.Type == kit.PUBREC && e.Pkt.ID == inboundID }); err != nil {
					c.Inconclusive(label + ": no PUBREC: " + err.Error())
					return
				}
				// outbound deliveries to X: identifiers are drawn 1,2,3,... so one of the first three collides
				sent := []*c02Sent{}
				for i := 0; i < 3; i++ {
					s := &c02Sent{tag: fmt.Sprintf("%s-m%d", label, i), topic: "c02x/t", qos: 1}
					pl := c02Payload(s.tag, 10)
					s.sum, s.size = sha1.Sum(pl), len(pl)
					s.acked, _ = y.Publish(s.topic, pl, 1, false, kit.DefaultWait)
					if !s.acked {
						c.Inconclusive(label + ": publish not acknowledged")
						return
					}
					sent = append(sent, s)
				}
				// fence: the writer goroutine is sequential, so once the QoS 0 witness z has
				// read a later message, the deliveries of the three messages to x have been
				// attempted (a dropped delivery leaves nothing else to wait for)
				if acked, _ := y.Publish("c02x/t", []byte("FENCE|"), 1, false, kit.DefaultWait); !acked {
					c.Inconclusive(label + ": fence not acknowledged")
					return
				}
				if _, _, err := z.WaitFor(0, 60*time.Second, func(e kit.Event) bool { return e.Pkt.Type == kit.PUBLISH && string(e.Pkt.Payload) == "FENCE|" }); err != nil {
					c.Inconclusive(label + ": witness never saw the fence: " + err.Error())
					return
				}
				// finish the inbound exchange, then barrier
				x.Send(kit.EncPubRel(inboundID))
				if !c02Barrier(c, label, y, []*kit.Client{x}, "c02x/t", 2) {
					return
				}
				ids := []int{}
				for _, p := range x.Publishes() {
					ids = append(ids, p.ID)
				}
				c.ObserveDistinct("outbound_ids_seen", fmt.Sprint(ids))
				c02Verify(c, label+fmt.Sprintf(" (outbound ids seen %v)", ids), []*kit.Client{x}, []int{subQos}, sent, "lost:inbound-outbound-identifier-collision")
				c.Case(label, true)
				c.Observe("id_collision_scenarios", 1)
			}()
		}
	}
}

// c02Overlap: (1) a QoS 2 subscriber that answers PUBREC at once but withholds PUBCOMP, so that
// several deliveries to it overlap; (2) publishes with the retain flag and an empty payload (they
// clear the retained slot AND are ordinary messages for the current subscribers).
func c02Overlap(c *fw.Ctx, base string) {
	for variant := 0; variant < 2; variant++ {
		label := []string{"pubcomp-withheld", "retained-empty-payload"}[variant]
		fw.LogCase("C02 %s", label)
		cl := kit.NewCluster(base + "/e-" + label)
		n, err := cl.AddNode(kit.NodeOpts{ID: 1})
		if err != nil {
			c.Inconclusive("cannot start node: " + err.Error())
			return
		}
		func() {
			defer cl.Close()
			sub, err := n.MustConnect(kit.ConnectOpts{ClientID: "s", KeepAlive: 600, Clean: true})
			if err != nil {
				c.Inconclusive(label + ": connect: " + err.Error())
				return
			}
			defer sub.Close()
			z, err := n.MustConnect(kit.ConnectOpts{ClientID: "z", KeepAlive: 600, Clean: true})
			if err != nil {
				c.Inconclusive(label + ": connect: " + err.Error())
				return
			}
			defer z.Close()
			pub, err := n.MustConnect(kit.ConnectOpts{ClientID: "p", KeepAlive: 600, Clean: true})
			if err != nil {
				c.Inconclusive(label + ": connect: " + err.Error())
				return
			}
			defer pub.Close()
			withheld := []int{}
			if variant == 0 {
				sub.OnPubRel = func(p kit.Pkt) bool { withheld = append(withheld, p.ID); return false }
			}
			if sub.Sub1("c02e/#", 2) != nil || z.Sub1("c02e/#", 0) != nil {
				c.Inconclusive(label + ": subscribe failed")
				return
			}
			if ok, _ := sub.Ping(kit.DefaultWait); !ok {
				c.Inconclusive(label + ": no PINGRESP")
				return
			}
			sent := []*c02Sent{}
			emptyTopics := []string{}
			for i := 0; i < 6; i++ {
				s := &c02Sent{tag: fmt.Sprintf("%s-m%d", label, i), topic: fmt.Sprintf("c02e/t%d", i%2), qos: 1 + i%2}
				retain := false
				pl := c02Payload(s.tag, 12)
				if variant == 1 && i%2 == 1 {
					// retain flag + empty payload; identified by its own topic
					s.topic = fmt.Sprintf("c02e/clear%d", i)
					pl = nil
					retain = true
					emptyTopics = append(emptyTopics, s.topic)
				} else if variant == 1 && i == 2 {
					retain = true
				}
				s.sum, s.size = sha1.Sum(pl), len(pl)
				s.acked, _ = pub.Publish(s.topic, pl, s.qos, retain, kit.DefaultWait)
				if !s.acked {
					c.Inconclusive(label + ": publish not acknowledged")
					return
				}
				if pl != nil {
					sent = append(sent, s)
				}
			}
			// fence: the witness has a later message, so every delivery above has been attempted
			if acked, _ := pub.Publish("c02e/fence", []byte("FENCE|"), 1, false, kit.DefaultWait); !acked {
				c.Inconclusive(label + ": fence not acknowledged")
				return
			}
			if _, _, err := z.WaitFor(0, 60*time.Second, func(e kit.Event) bool { return e.Pkt.Type == kit.PUBLISH && string(e.Pkt.Payload) == "FENCE|" }); err != nil {
				c.Inconclusive(label + ": witness never saw the fence")
				return
			}
			if variant == 0 {
				sub.OnPubRel = nil
				// release the withheld exchanges (PUBREL is retransmitted anyway; answer the ones seen)
				if ok, _ := sub.Ping(kit.DefaultWait); !ok {
					c.Inconclusive(label + ": no PINGRESP")
					return
				}
				for _, e := range sub.Events() {
					if e.Pkt.Type == kit.PUBREL {
						sub.Send(kit.EncPubComp(e.Pkt.ID))
					}
				}
			}
			if !c02Barrier(c, label, pub, []*kit.Client{sub}, "c02e/end", 3) {
				return
			}
			c02Verify(c, label, []*kit.Client{sub}, []int{2}, sent, "lost:"+label)
			for _, t := range emptyTopics {
				got := 0
				for _, p := range sub.Publishes() {
					if p.Topic == t {
						got++
					}
				}
				c.Observe("acked_deliveries_checked", 1)
				if got == 0 {
					c.Violation("lost:retained-empty-payload", fmt.Sprintf("%s: the acknowledged publish on %q (retain flag, empty payload) was never written to the connected subscriber", label, t), map[string]interface{}{"topic": t})
				}
			}
			c.Case(label, true)
			c.Observe("overlap_scenarios", 1)
		}()
	}
}

// c02Fanout: (1) two QoS 0 subscribers of one topic, the first one's connection rejects writes while
// its session is still registered: the second one must get every acknowledged message anyway;
// (2) a subscriber that joins between two publishes on the SAME topic (no other topic in between)
// must get everything acknowledged after its subscription is complete.
func c02Fanout(c *fw.Ctx, base string) {
	for variant := 0; variant < 2; variant++ {
		label := []string{"write-failure-of-another-recipient", "joins-between-same-topic-publishes"}[variant]
		fw.LogCase("C02 %s", label)
		cl := kit.NewCluster(base + "/f-" + label)
		n, err := cl.AddNode(kit.NodeOpts{ID: 1})
		if err != nil {
			c.Inconclusive("cannot start node: " + err.Error())
			return
		}
		func() {
			defer cl.Close()
			pub, err := n.MustConnect(kit.ConnectOpts{ClientID: "p", KeepAlive: 600, Clean: true})
			if err != nil {
				c.Inconclusive(label + ": connect: " + err.Error())
				return
			}
			defer pub.Close()
			publish := func(tag string, sent *[]*c02Sent) bool {
				s := &c02Sent{tag: tag, topic: "c02f/t", qos: 1}
				pl := c02Payload(s.tag, 10)
				s.sum, s.size = sha1.Sum(pl), len(pl)
				s.acked, _ = pub.Publish(s.topic, pl, 1, false, kit.DefaultWait)
				if !s.acked {
					c.Inconclusive(label + ": publish not acknowledged")
					return false
				}
				if sent != nil {
					*sent = append(*sent, s)
				}
				return true
			}
			sent := []*c02Sent{}
			var healthy *kit.Client
			if variant == 0 {
				a, fa := n.DialFaulty("broken")
				defer a.Close()
				if code, err := a.Connect(kit.ConnectOpts{ClientID: "broken", KeepAlive: 600, Clean: true}); err != nil || code != 0 {
					c.Inconclusive(label + ": connect failed")
					return
				}
				if a.Sub1("c02f/t", 0) != nil { // subscribes first: it precedes the healthy one in the recipient list
					c.Inconclusive(label + ": subscribe failed")
					return
				}
				healthy, err = n.MustConnect(kit.ConnectOpts{ClientID: "healthy", KeepAlive: 600, Clean: true})
				if err != nil {
					c.Inconclusive(label + ": connect: " + err.Error())
					return
				}
				defer healthy.Close()
				if healthy.Subscribe([]string{"c02f/t", "c02f/end"}, []int{0, 0}) != nil {
					c.Inconclusive(label + ": subscribe failed")
					return
				}
				healthy.Ping(kit.DefaultWait)
				fa.FailWrites(true)
				for i := 0; i < 5; i++ {
					if !publish(fmt.Sprintf("%s-m%d", label, i), &sent) {
						return
					}
				}
				c.Observe("writes_refused_by_fault_injection", int(fa.Failed))
			} else {
				early, err := n.MustConnect(kit.ConnectOpts{ClientID: "early", KeepAlive: 600, Clean: true})
				if err != nil {
					c.Inconclusive(label + ": connect: " + err.Error())
					return
				}
				defer early.Close()
				early.Sub1("c02f/t", 0)
				early.Ping(kit.DefaultWait)
				for i := 0; i < 3; i++ {
					if !publish(fmt.Sprintf("%s-before%d", label, i), nil) {
						return
					}
				}
				// wait until the writer has handled them (the early subscriber has the last one)
				if _, _, err := early.WaitFor(0, 60*time.Second, func(e kit.Event) bool {
					return e.Pkt.Type == kit.PUBLISH && strings.HasPrefix(string(e.Pkt.Payload), label+"-before2|")
				}); err != nil {
					c.Inconclusive(label + ": early subscriber did not get the warm-up messages")
					return
				}
				healthy, err = n.MustConnect(kit.ConnectOpts{ClientID: "late", KeepAlive: 600, Clean: true})
				if err != nil {
					c.Inconclusive(label + ": connect: " + err.Error())
					return
				}
				defer healthy.Close()
				if healthy.Subscribe([]string{"c02f/t", "c02f/end"}, []int{0, 0}) != nil {
					c.Inconclusive(label + ": subscribe failed")
					return
				}
				healthy.Ping(kit.DefaultWait) // the subscription is complete
				for i := 0; i < 4; i++ {
					if !publish(fmt.Sprintf("%s-after%d", label, i), &sent) {
						return
					}
				}
			}
			if !c02Barrier(c, label, pub, []*kit.Client{healthy}, "c02f/end", 4) {
				return
			}
			c02Verify(c, label, []*kit.Client{healthy}, []int{0}, sent, "lost:"+label)
			c.Case(label, true)
			c.Observe("fanout_scenarios", 1)
		}()
	}
}

// c02LatePubRel: an inbound QoS 2 publish whose PUBREL comes after the handshake timed out. Whatever
// the broker answers, a PUBCOMP means "acknowledged": the message must then reach the subscriber.
func c02LatePubRel(c *fw.Ctx, base string) {
	fw.LogCase("C02 late-pubrel")
	cl := kit.NewCluster(base + "/late-pubrel")
	defer cl.Close()
	n, err := cl.AddNode(kit.NodeOpts{ID: 1})
	if err != nil {
		c.Inconclusive("cannot start node: " + err.Error())
		return
	}
	sub, err := n.MustConnect(kit.ConnectOpts{ClientID: "s", KeepAlive: 600, Clean: true})
	if err != nil {
		c.Inconclusive("connect: " + err.Error())
		return
	}
	defer sub.Close()
	if err := sub.Subscribe([]string{"c02l/#"}, []int{1}); err != nil {
		c.Inconclusive("subscribe: " + err.Error())
		return
	}
	pub, err := n.MustConnect(kit.ConnectOpts{ClientID: "p", KeepAlive: 600, Clean: true})
	if err != nil {
		c.Inconclusive("connect: " + err.Error())
		return
	}
	defer pub.Close()
	far := time.Now()
	sent := []*c02Sent{}
	for i := 0; i < c.Pick(6, 40); i++ {
		s := &c02Sent{tag: fmt.Sprintf("late-%d", i), topic: "c02l/t", qos: 2}
		pl := c02Payload(s.tag, 10)
		s.sum, s.size = sha1.Sum(pl), len(pl)
		id := 100 + i
		from := pub.NumEvents()
		pub.Send(kit.EncPublish(s.topic, pl, 2, false, false, id))
		if _, _, err := pub.WaitFor(from, kit.DefaultWait, func(e kit.Event) bool { return e.Pkt.Type == kit.PUBREC && e.Pkt.ID == id }); err != nil {
			c.Inconclusive("late-pubrel: no PUBREC: " + err.Error())
			return
		}
		late := i%2 == 0
		if late {
			// the handshake times out: every armed deadline is in the past at this sweep
			far = far.Add(time.Hour)
			n.Ack.Expire(far)
		}
		from = pub.NumEvents()
		pub.Send(kit.EncPubRel(id))
		if ok, _ := pub.Ping(kit.DefaultWait); !ok {
			c.Inconclusive("late-pubrel: no PINGRESP")
			return
		}
		for _, e := range pub.Events()[from:] {
			if e.Pkt.Type == kit.PUBCOMP && e.Pkt.ID == id {
				s.acked = true
			}
		}
		if late && s.acked {
			c.Observe("late_pubrels_acknowledged", 1)
		}
		if late {
			c.Observe("late_pubrels_sent", 1)
		}
		sent = append(sent, s)
	}
	if !c02Barrier(c, "late-pubrel", pub, []*kit.Client{sub}, "c02l/end", 1) {
		return
	}
	c02Verify(c, "late-pubrel", []*kit.Client{sub}, []int{1}, sent, "lost:acknowledged-after-handshake-timeout")
	c.Case("late-pubrel", true)
}

// c02LocalLogFault: subscribers on two nodes, publisher on node 1; for a while node 1's own log rejects
// writes while the forwarding to node 2 works. Whatever is acknowledged in that window must still reach
// the subscriber on node 1.
func c02LocalLogFault(c *fw.Ctx, base string) {
	fw.LogCase("C02 local-log-fault")
	cl := kit.NewCluster(base + "/local-log-fault")
	defer cl.Close()
	n1, err := cl.AddNode(kit.NodeOpts{ID: 1})
	if err != nil {
		c.Inconclusive("cannot start node: " + err.Error())
		return
	}
	n2, err := cl.AddNode(kit.NodeOpts{ID: 2})
	if err != nil {
		c.Inconclusive("cannot start node: " + err.Error())
		return
	}
	subs := []*kit.Client{}
	for i, n := range []*kit.Node{n1, n2} {
		sc, err := n.MustConnect(kit.ConnectOpts{ClientID: fmt.Sprintf("s%d", i), KeepAlive: 600, Clean: true})
		if err != nil {
			c.Inconclusive("connect: " + err.Error())
			return
		}
		defer sc.Close()
		if err := sc.Subscribe([]string{"c02g/#"}, []int{1}); err != nil {
			c.Inconclusive("subscribe: " + err.Error())
			return
		}
		subs = append(subs, sc)
	}
	cl.Quiesce()
	pub, err := n1.MustConnect(kit.ConnectOpts{ClientID: "p", KeepAlive: 600, Clean: true})
	if err != nil {
		c.Inconclusive("connect: " + err.Error())
		return
	}
	defer pub.Close()
	sent := []*c02Sent{}
	total := c.Pick(60, 300)
	for i := 0; i < total; i++ {
		faulty := i >= total/3 && i < 2*total/3
		if faulty {
			n1.Log.SetFail(func(*packet.Publish, int) error { return errors.New("injected: no space left on device") })
		} else {
			n1.Log.SetFail(nil)
		}
		s := &c02Sent{tag: fmt.Sprintf("fault-%d", i), topic: "c02g/t", qos: 1}
		pl := c02Payload(s.tag, 10)
		s.sum, s.size = sha1.Sum(pl), len(pl)
		s.acked, _ = pub.Publish(s.topic, pl, 1, false, map[bool]time.Duration{true: 120 * time.Millisecond, false: kit.DefaultWait}[faulty])
		if faulty {
			c.Observe("publishes_during_local_log_fault", 1)
			if s.acked {
				c.Observe("publishes_acknowledged_during_local_log_fault", 1)
			}
		}
		sent = append(sent, s)
	}
	n1.Log.SetFail(nil)
	if !c02Barrier(c, "local-log-fault", pub, subs, "c02g/end", 1) {
		return
	}
	c02Verify(c, "local-log-fault", subs, []int{1, 1}, sent, "lost:acknowledged-while-local-log-failed")
	c.Case("local-log-fault", true)
}
