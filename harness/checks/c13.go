package checks

import (
	"bytes"
	"fmt"
	"strings"
	"sync"
	"time"

	"wv/fw"
	"wv/kit"
	"wv/model"
)

// C13 — will messages are published exactly when a session dies without DISCONNECT.

func init() {
	fw.Register("C13", fw.Spec{Run: runC13})
}

type c13Scenario struct {
	bigWill      bool   // a will payload of 3 kB
	cause        string // close | keepalive | second-connect | garbage | node-failure | disconnect
	nNodes       int
	host         int
	willQos      int
	retain       bool
	willTopic    string
	filters      []string // one watcher per node per filter
	emptyPayload bool
}

type c13Watcher struct {
	cl     *kit.Client
	node   int
	filter string
	qos    int
	mount  string
}

func c13Run(c *fw.Ctx, idx int, sc c13Scenario) {
	fw.LogCase("C13 scenario %d %+v", idx, sc)
	cl := kit.NewCluster(kit.WorkDir("c13"))
	defer cl.Close()
	auth := kit.TenantAuth()
	nodes := []*kit.Node{}
	for i := 1; i <= sc.nNodes; i++ {
		n, err := cl.AddNode(kit.NodeOpts{ID: uint64(i), Auth: auth})
		if err != nil {
			c.Inconclusive("cannot start node: " + err.Error())
			return
		}
		nodes = append(nodes, n)
	}
	cl.StartPump(3 * time.Millisecond)
	desc := fmt.Sprintf("cause=%s, %d node(s), dying session on n%d, will topic %q QoS %d retain=%v", sc.cause, sc.nNodes, sc.host+1, sc.willTopic, sc.willQos, sc.retain)
	wit := func(extra map[string]interface{}) map[string]interface{} {
		out := map[string]interface{}{"scenario": idx, "cause": sc.cause, "nodes": sc.nNodes, "host": sc.host + 1, "will_topic": sc.willTopic, "will_qos": sc.willQos, "will_retain": sc.retain}
		for k, v := range extra {
			out[k] = v
		}
		return out
	}
	sentinel := fmt.Sprintf("zz/c13/%d", idx)
	watchers := []*c13Watcher{}
	for ni, n := range nodes {
		for fi, f := range sc.filters {
			w := &c13Watcher{node: ni, filter: f, qos: (ni + fi) % 2, mount: "tA"}
			cc, err := n.MustConnect(kit.ConnectOpts{ClientID: fmt.Sprintf("w-%d-%d-%d", idx, ni, fi), KeepAlive: 600, Clean: true, User: w.mount})
			if err != nil {
				c.Inconclusive("connect: " + err.Error())
				return
			}
			defer cc.Close()
			if err := cc.Subscribe([]string{f, sentinel}, []int{w.qos, 0}); err != nil {
				c.Inconclusive("subscribe: " + err.Error())
				return
			}
			w.cl = cc
			watchers = append(watchers, w)
		}
	}
	host := nodes[sc.host]
	tag := fmt.Sprintf("will-%d", idx)
	emptyWill := sc.emptyPayload
	willPayload := []byte(tag)
	if emptyWill {
		willPayload = nil // a zero-length will message is legal; it is recognised by its topic below
	}
	if sc.bigWill && !emptyWill {
		willPayload = append([]byte(tag+"|"), bytes.Repeat([]byte("w"), 3000)...) // larger than any single-packet shortcut
	}
	isWill := func(p kit.Pkt) bool {
		if emptyWill {
			return p.Topic == sc.willTopic && len(p.Payload) == 0
		}
		return string(p.Payload) == tag || strings.HasPrefix(string(p.Payload), tag+"|")
	}
	ka := 600
	if sc.cause == "keepalive" {
		ka = 1
	}
	// gossip barrier: the dying session's node must know every watcher before the session can die
	cl.StopPump()
	cl.Quiesce()
	cl.StartPump(3 * time.Millisecond)
	dyingOpts := kit.ConnectOpts{ClientID: fmt.Sprintf("dying-%d", idx), KeepAlive: ka, Clean: true, User: "tA",
		Will: true, WillTopic: sc.willTopic, WillPayload: willPayload, WillQos: sc.willQos, WillRetain: sc.retain}
	var dying *kit.Client
	var err error
	if sc.cause == "close-before-connack" {
		// the client sends CONNECT and goes away without reading the CONNACK; once every node lists the
		// session (polled below) it was accepted, and it never sent DISCONNECT
		dying = host.Dial(dyingOpts.ClientID)
		dying.Send(kit.EncConnect(dyingOpts))
		dying.Close()
	} else {
		if sc.cause == "short-session-then-node-failure" {
			cl.StopPump() // the whole life of the session falls into one gossip interval
		}
		dying, err = host.MustConnect(dyingOpts)
		if err != nil {
			c.Inconclusive(desc + ": connect: " + err.Error())
			return
		}
		if sc.cause == "short-session-then-node-failure" {
			// CONNECT and DISCONNECT before any gossip goes out: the peers get the creation and the removal
			// in whatever order the broadcast queue hands them out
			dying.Send(kit.EncDisconnect())
			dying.WaitClosed(10 * time.Second)
			pollGone(10*time.Second, func() []string {
				for _, m := range host.State.SessionMetadatas().All() {
					if m.ClientID == dyingOpts.ClientID {
						return []string{"still listed"}
					}
				}
				return nil
			})
		}
	}
	defer dying.Close()
	pubNode := nodes[(sc.host+1)%sc.nNodes]
	pub, err := pubNode.MustConnect(kit.ConnectOpts{ClientID: fmt.Sprintf("p-%d", idx), KeepAlive: 600, Clean: true, User: "tA"})
	if err != nil {
		c.Inconclusive(desc + ": connect: " + err.Error())
		return
	}
	defer pub.Close()
	// gossip barrier: every node knows the session (with its will) and every watcher
	cl.StopPump()
	cl.Quiesce()
	cl.StartPump(3 * time.Millisecond)
	survivors := map[int]bool{}
	for i := range nodes {
		survivors[i] = true
	}
	switch sc.cause {
	case "close-before-connack":
		// already gone
	case "close":
		dying.Close()
	case "keepalive":
		// silence: the broker's allowance is 2 x 1 s
	case "second-connect":
		dying.Send(kit.EncConnect(kit.ConnectOpts{ClientID: "again", KeepAlive: 60, Clean: true}))
	case "garbage":
		dying.Send([]byte{0xf0, 0x02, 0x00, 0x00})
	case "disconnect":
		dying.Send(kit.EncDisconnect())
	case "node-failure", "short-session-then-node-failure":
		cl.StopPump()
		if idx%2 == 0 {
			cl.FailNode(host)
		} else {
			// the survivors notice the failure one after the other, with the gossip caused by the
			// first one's reaction delivered in between
			cl.FailNodeStaggered(host, 40*time.Millisecond)
			c.Observe("staggered_node_failures", 1)
		}
		survivors[sc.host] = false
		cl.StartPump(3 * time.Millisecond)
	}
	expect := sc.cause != "disconnect" && sc.cause != "short-session-then-node-failure"
	nodeFails := sc.cause == "node-failure" || sc.cause == "short-session-then-node-failure"
	matching := func(w *c13Watcher) bool { return model.Match(w.filter, sc.willTopic) }
	count := func(w *c13Watcher) (n int, topics map[string]bool) {
		topics = map[string]bool{}
		ids := map[int]bool{}
		for _, p := range w.cl.Publishes() {
			if !isWill(p) {
				continue
			}
			if p.Qos > 0 && ids[p.ID] {
				continue // retransmission of the same delivery
			}
			ids[p.ID] = true
			n++
			topics[p.Topic] = true
		}
		return
	}
	if expect {
		// positive wait: the will arrives at every matching watcher on a surviving node
		for _, w := range watchers {
			if !survivors[w.node] || !matching(w) {
				continue
			}
			if _, _, err := w.cl.WaitFor(0, 20*time.Second, func(e kit.Event) bool { return e.Pkt.Type == kit.PUBLISH && isWill(e.Pkt) }); err != nil {
				c.Violation("will-not-delivered:"+sc.cause, fmt.Sprintf("%s: the watcher on n%d with filter %q (same mount point) did not receive the will within 20 s", desc, w.node+1, w.filter), wit(map[string]interface{}{"watcher_node": w.node + 1, "filter": w.filter}))
				return
			}
		}
	} else {
		dying.WaitClosed(10 * time.Second)
	}
	if nodeFails {
		time.Sleep(3300 * time.Millisecond)
	} else {
		time.Sleep(150 * time.Millisecond)
	}
	// barrier
	if nodeFails && !survivors[(sc.host+1)%sc.nNodes] {
		return
	}
	if acked, err := pub.Publish(sentinel, []byte("END"), 1, false, kit.DefaultWait); !acked {
		c.Inconclusive(fmt.Sprintf("%s: sentinel not acknowledged: %v", desc, err))
		return
	}
	for _, w := range watchers {
		if !survivors[w.node] {
			continue
		}
		if _, _, err := w.cl.WaitFor(0, 30*time.Second, func(e kit.Event) bool { return e.Pkt.Type == kit.PUBLISH && e.Pkt.Topic == sentinel }); err != nil {
			c.Inconclusive(fmt.Sprintf("%s: watcher on n%d never saw the sentinel: %v", desc, w.node+1, err))
			return
		}
		n, topics := count(w)
		want := 0
		if expect && matching(w) {
			want = 1
		}
		c.Observe("watchers_checked", 1)
		if want == 1 {
			c.Observe("wills_expected", 1)
		}
		switch {
		case n > want && want == 0 && !expect:
			c.Violation("will-after-disconnect", fmt.Sprintf("%s: the will was published although the session ended with DISCONNECT (watcher on n%d, filter %q)", desc, w.node+1, w.filter), wit(nil))
		case n > want && want == 0:
			c.Violation("will-to-non-matching", fmt.Sprintf("%s: watcher on n%d with filter %q received the will although its filter does not match", desc, w.node+1, w.filter), wit(nil))
		case n > want:
			c.Violation("will-duplicated:"+sc.cause, fmt.Sprintf("%s: watcher on n%d (filter %q) received the will %d times", desc, w.node+1, w.filter, n), wit(map[string]interface{}{"copies": n}))
		case n < want:
			c.Violation("will-not-delivered:"+sc.cause, fmt.Sprintf("%s: watcher on n%d (filter %q) did not receive the will", desc, w.node+1, w.filter), wit(nil))
		}
		for t := range topics {
			if t != sc.willTopic {
				c.Violation("will-topic-changed", fmt.Sprintf("%s: the will arrived on topic %q", desc, t), wit(map[string]interface{}{"topic": t}))
			}
		}
	}
	c.Case(fmt.Sprintf("%+v", sc), true)
}

// c13ReconnectWindow: the session with the will loses its connection exactly while its own
// client's new CONNECT is being set up - after the old record was removed, before the new
// one exists (hook H2 holds the accepting goroutine there). It did not DISCONNECT: its will
// is due.
func c13ReconnectWindow(c *fw.Ctx, idx int) {
	fw.LogCase("C13 reconnect-window %d", idx)
	cl := kit.NewCluster(kit.WorkDir("c13r"))
	defer cl.Close()
	n, err := cl.AddNode(kit.NodeOpts{ID: 1, Auth: kit.PredictableAuth()})
	if err != nil {
		c.Inconclusive("cannot start node: " + err.Error())
		return
	}
	clientID := fmt.Sprintf("rw-%d", idx)
	tag := fmt.Sprintf("rw-will-%d", idx)
	w, err := n.MustConnect(kit.ConnectOpts{ClientID: fmt.Sprintf("rw-watch-%d", idx), KeepAlive: 600, Clean: true})
	if err != nil {
		c.Inconclusive("connect: " + err.Error())
		return
	}
	defer w.Close()
	if err := w.Subscribe([]string{"rw/#", "zz/rw"}, []int{idx % 2, 0}); err != nil {
		c.Inconclusive("subscribe: " + err.Error())
		return
	}
	old, err := n.MustConnect(kit.ConnectOpts{ClientID: clientID, KeepAlive: 600, Clean: true, Will: true, WillTopic: "rw/status", WillPayload: []byte(tag), WillQos: idx % 3})
	if err != nil {
		c.Inconclusive("connect: " + err.Error())
		return
	}
	defer old.Close()
	reached, release := kit.BlockAt("setup.afterDeleteOld", clientID+"#2")
	done := make(chan struct{})
	var newer *kit.Client
	go func() {
		newer, _, _ = n.Connect(kit.ConnectOpts{ClientID: clientID, KeepAlive: 600, Clean: true})
		close(done)
	}()
	select {
	case <-reached:
		c.Observe("reconnect_window_reached", 1)
	case <-time.After(kit.DefaultWait):
		release()
		c.Inconclusive("reconnect window: the setup point was not reached")
		return
	}
	old.Close() // connection loss inside the window
	pollGone(10*time.Second, func() []string {
		if n.Local.Get(clientID+"#1") != nil {
			return []string{"still registered"}
		}
		return nil
	})
	time.Sleep(30 * time.Millisecond)
	release()
	<-done
	if newer != nil {
		defer newer.Close()
	}
	desc := fmt.Sprintf("reconnect window %d: the session with the will lost its connection after its record had been removed by its own client's new CONNECT and before the new record existed", idx)
	if _, _, err := w.WaitFor(0, 20*time.Second, func(e kit.Event) bool { return e.Pkt.Type == kit.PUBLISH && string(e.Pkt.Payload) == tag }); err != nil {
		c.Violation("will-not-delivered:reconnect-window", desc+": its will was never published", map[string]interface{}{"scenario": idx})
		return
	}
	time.Sleep(100 * time.Millisecond)
	n2 := 0
	ids := map[int]bool{}
	for _, p := range w.Publishes() {
		if string(p.Payload) == tag && !(p.Qos > 0 && ids[p.ID]) {
			n2++
			ids[p.ID] = true
		}
	}
	c.Observe("wills_expected", 1)
	c.Observe("watchers_checked", 1)
	c.Case(fmt.Sprintf("reconnect-window|%d", idx), true)
	if n2 != 1 {
		c.Violation("will-duplicated:reconnect-window", fmt.Sprintf("%s: the watcher received the will %d times", desc, n2), nil)
	}
}

func runC13(c *fw.Ctx) {
	c.Rule = "scenarios = termination cause in {connection closed, connection closed right after CONNECT without reading the CONNACK, keep-alive expiry (1 s), second CONNECT, undecodable packet, failure of the hosting node, DISCONNECT, CONNECT+DISCONNECT inside one gossip interval followed by the failure of the hosting node} x will QoS 0/1/2 x retain x will topic x placement of the dying session over 1-3 nodes (tenant mount point through the user name); one watcher per node and per filter (exact topic, '+' and '#' variants, one non-matching), QoS 0 or 1, all in the dying session's mount point. Plus: connection loss inside the window of the client's own re-CONNECT (old record removed, new one not yet created; hook H2 gate). After the cause (and the code's 3 s delay for node failure) a sentinel barrier; oracle: every matching watcher on a surviving node received the will exactly once (QoS 1 retransmissions with the same identifier discounted) on the topic the client specified; nobody after DISCONNECT; non-matching watchers nothing. distinct = scenario parameters; non-trivial = all"
	c.Assume("a stray will published after the barrier would be missed (20 publish workers are unordered); only earlier ones are seen")
	causes := []string{"close", "keepalive", "second-connect", "garbage", "node-failure", "disconnect", "close-before-connack", "short-session-then-node-failure"}
	scen := []c13Scenario{}
	rg := c.SubRng("c13", 0)
	topics := []string{"w/a/x", "w/b", "w/a/x/y"}
	for ci, cause := range causes {
		for nn := 1; nn <= 3; nn++ {
			if (cause == "node-failure" || cause == "short-session-then-node-failure") && nn == 1 {
				continue
			}
			if c.Quick() && nn == 2 && ci%2 == 0 && cause != "node-failure" && cause != "short-session-then-node-failure" {
				continue
			}
			t := topics[rg.Intn(len(topics))]
			scen = append(scen, c13Scenario{cause: cause, nNodes: nn, host: rg.Intn(nn), willQos: rg.Intn(3), retain: rg.Intn(2) == 0, willTopic: t,
				filters: []string{t, "w/+/x", "w/#", "w/none"}})
		}
	}
	// zero-length will messages
	for i, cause := range []string{"close", "garbage", "node-failure"} {
		t := fmt.Sprintf("w/empty%d/x", i)
		scen = append(scen, c13Scenario{cause: cause, nNodes: 2 + i%2, host: 0, willQos: i % 2, willTopic: t, filters: []string{t, "w/+/x", "w/#", "w/none"}, emptyPayload: true, retain: i%2 == 0})
		scen = append(scen, c13Scenario{cause: cause, nNodes: 2 + i%2, host: 1, willQos: (i + 1) % 3, willTopic: "w/big/x", filters: []string{"w/big/x", "w/+/x", "w/#", "w/none"}, bigWill: true, retain: i%2 == 1})
	}
	for i := 0; i < c.Pick(6, 300); i++ {
		cause := causes[rg.Intn(len(causes))]
		nn := 1 + rg.Intn(3)
		if (cause == "node-failure" || cause == "short-session-then-node-failure") && nn == 1 {
			nn = 3
		}
		t := topics[rg.Intn(len(topics))]
		scen = append(scen, c13Scenario{cause: cause, nNodes: nn, host: rg.Intn(nn), willQos: rg.Intn(3), retain: rg.Intn(2) == 0, willTopic: t, filters: []string{t, "w/+/x", "w/#", "w/none"}})
	}
	sem := make(chan struct{}, 16)
	var wg sync.WaitGroup
	for i, sc := range scen {
		wg.Add(1)
		sem <- struct{}{}
		go func(i int, sc c13Scenario) {
			defer wg.Done()
			defer func() { <-sem }()
			c13Run(c, i, sc)
		}(i, sc)
	}
	wg.Wait()
	for i := 0; i < c.Pick(4, 40); i++ {
		c13ReconnectWindow(c, i)
	}
	c.Sample(map[string]interface{}{"scenario": fmt.Sprintf("%+v", scen[0])})
	c.Sample(map[string]interface{}{"scenario": fmt.Sprintf("%+v", scen[len(scen)-1])})
	c.Floor("wills_expected", 20)
	c.Floor("watchers_checked", 60)
}
