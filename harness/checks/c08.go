package checks

import (
	"fmt"
	"math/rand"
	"runtime"
	"strings"
	"sync"

	"github.com/vx-labs/mqtt-protocol/packet"
	"github.com/vx-labs/wasp/v4/wasp/api"
	"github.com/vx-labs/wasp/v4/wasp/distributed"

	"wv/fw"
	"wv/kit"
	"wv/model"
)

// C08 — replicas converge regardless of delivery order, duplication, batching.

func init() {
	fw.Register("C08", fw.Spec{Run: runC08})
}

func refCanon(m *model.LWW) kit.Canon {
	s, su, t := m.Visible(kit.FmtSession, kit.FmtSub, kit.FmtTopic)
	return kit.Canon{Sessions: s, Subs: su, Topics: t}
}

// one synthesised update
type c08Upd struct {
	kind int // 0 session, 1 subscription, 2 retained
	add  bool
	key  int
	ts   int64
	// filled in
	sess *api.SessionMetadatas
	sub  *api.Subscription
	top  *api.RetainedMessage
}

func (u c08Upd) String() string {
	op := "rm"
	if u.add {
		op = "add"
	}
	return fmt.Sprintf("%s(k%d)@%d", op, u.key, u.ts)
}

var c08KeyVariants = [3][][2]string{
	// sessions: {session id, client id}
	{{"s1", "s2"}, {"s1", "s1b"}, {"sess", "sess2"}},
	// subscriptions: {session id + "|" + pattern}
	{{"s1|mp/a", "s2|mp/a"}, {"s1|mp/a", "s1|mp/a/b"}, {"s1|mp/a/+", "s1|mp/a/b"}},
	// retained topics
	{{"mp/t", "mp/t/u"}, {"mp/t", "mp/u"}, {"mp/a/b", "mp/a"}},
}

const c08Base = int64(1790000000000000000)

func c08Build(kind, variant int, shape []int) []c08Upd {
	// shape[i] in 0..3: bit0 = add, bit1 = key
	ups := make([]c08Upd, len(shape))
	lastAdd := map[int]int64{}
	for i, sh := range shape {
		// timestamps have the magnitude of real ones (UnixNano, ~1.79e18) and lie a few ns apart
		u := c08Upd{kind: kind, add: sh&1 == 1, key: sh >> 1, ts: c08Base + int64(3*(i+1))}
		kn := c08KeyVariants[kind][variant][u.key]
		switch kind {
		case 0:
			s := &api.SessionMetadatas{SessionID: kn, ClientID: "client", Peer: uint64(1 + u.key), MountPoint: "mp", ConnectedAt: u.ts - c08Base}
			if variant == 1 {
				s.ClientID = "shared" // sessions sharing a client id
			}
			if u.add {
				s.LastAdded = u.ts
				lastAdd[u.key] = u.ts
			} else {
				s.LastAdded = lastAdd[u.key] // a removal carries the stamp of the add it removes
				s.LastDeleted = u.ts
			}
			u.sess = s
		case 1:
			parts := strings.SplitN(kn, "|", 2)
			s := &api.Subscription{SessionID: parts[0], Pattern: []byte(parts[1]), Peer: 7, QoS: int32(i % 3)}
			if u.add {
				s.LastAdded = u.ts
			} else {
				s.LastDeleted = u.ts
			}
			u.sub = s
		case 2:
			m := &api.RetainedMessage{Publish: &packet.Publish{Header: &packet.Header{Qos: int32(i % 2)}, Topic: []byte(kn)}}
			if u.add {
				m.Publish.Payload = []byte(fmt.Sprintf("v%d", u.ts))
				m.LastAdded = u.ts
			} else {
				m.LastDeleted = u.ts
			}
			u.top = m
		}
		ups[i] = u
	}
	return ups
}

func c08Event(ups []c08Upd) []byte {
	ev := &api.StateBroadcastEvent{}
	for _, u := range ups {
		switch u.kind {
		case 0:
			ev.SessionMetadatas = append(ev.SessionMetadatas, u.sess)
		case 1:
			ev.Subscriptions = append(ev.Subscriptions, u.sub)
		case 2:
			ev.RetainedMessages = append(ev.RetainedMessages, u.top)
		}
	}
	return kit.EncodeEvent(ev)
}

func permutations(n int) [][]int {
	var out [][]int
	p := make([]int, n)
	for i := range p {
		p[i] = i
	}
	var rec func(k int)
	rec = func(k int) {
		if k == n {
			out = append(out, append([]int{}, p...))
			return
		}
		for i := k; i < n; i++ {
			p[k], p[i] = p[i], p[k]
			rec(k + 1)
			p[k], p[i] = p[i], p[k]
		}
	}
	rec(0)
	return out
}

func runC08(c *fw.Ctx) {
	c.Rule = "(A) synthesised update multisets: for each kind (session, subscription, retained) and 3 key-pair variants (same key / neighbouring keys: same filter two sessions, a vs a/b, a/+ vs a/b; sessions sharing a client id; topics t vs t/u), every list of n<=4 (quick) / n<=5 (thorough, first variant) add/remove updates over the two keys with distinct timestamps x all n! delivery orders x re-delivery of every prefix x every split of the sequence into StateBroadcastEvent batches, each schedule delivered to a fresh replica through NotifyMsg and compared with the reference LWW set - enumerated completely. (B) seeded scenarios in which three origin nodes whose clocks are offset by -10 s/0/+10 s (hook H3) issue 20-60 real Create/Delete/Set calls with partial gossip between them; (odd scenarios with bulk removals: DeleteSession, DeletePeer of the issuing or another node) their actual broadcasts are then delivered in shuffled, duplicated, batched schedules to followers; origins (after receiving everything) and followers must equal the LWW reference computed from the broadcast entries. distinct = (kind, variant, update list, schedule) / (scenario, schedule); non-trivial = >=2 updates touch the same key"
	c.Assume("timestamps are distinct per key: with equal timestamps 'greatest' is undefined and an LWW set legitimately keeps the first arrival")
	c.Assume("visible state = SessionMetadatas().All(), Subscriptions().All(), Topics().Get('#') with identity, value fields and LastAdded; tombstone stamps are not compared")
	workers := runtime.NumCPU()

	// ---- part A -----------------------------------------------------------------
	type job struct {
		kind, variant int
		shape         []int
	}
	jobs := make(chan job, 1024)
	var wg sync.WaitGroup
	permCache := map[int][][]int{}
	for n := 1; n <= 5; n++ {
		permCache[n] = permutations(n)
	}
	var sampleOnce sync.Once
	for w := 0; w < workers; w++ {
		wg.Add(1)
		go func() {
			defer wg.Done()
			for j := range jobs {
				ups := c08Build(j.kind, j.variant, j.shape)
				n := len(ups)
				ref := model.NewLWW()
				for _, u := range ups {
					ref.ApplyEvent(&api.StateBroadcastEvent{SessionMetadatas: nonNilS(u.sess), Subscriptions: nonNilSub(u.sub), RetainedMessages: nonNilT(u.top)})
				}
				want := refCanon(ref).String()
				sameKey := false
				seenK := map[int]bool{}
				for _, u := range ups {
					if seenK[u.key] {
						sameKey = true
					}
					seenK[u.key] = true
				}
				schedules := 0
				for _, perm := range permCache[n] {
					seq := make([]c08Upd, n)
					for i, p := range perm {
						seq[i] = ups[p]
					}
					for dup := 0; dup <= n; dup++ {
						for mask := 0; mask < 1<<(n-1); mask++ {
							r := kit.NewReplica(99)
							// batches over the first n
							start := 0
							for i := 0; i < n; i++ {
								if i == n-1 || mask&(1<<i) != 0 {
									r.Deliver(c08Event(seq[start : i+1]))
									start = i + 1
								}
							}
							for i := 0; i < dup; i++ {
								r.Deliver(c08Event(seq[i : i+1]))
							}
							schedules++
							if got := r.Canon().String(); got != want {
								c.Violation(fmt.Sprintf("merge:%s", []string{"session", "subscription", "retained"}[j.kind]),
									fmt.Sprintf("kind=%d variant=%d updates %v delivered in order %v (batch mask %b, first %d re-delivered): replica shows %s, LWW reference %s", j.kind, j.variant, ups, perm, mask, dup, got, want),
									map[string]interface{}{"kind": j.kind, "variant": j.variant, "updates": fmt.Sprint(ups), "order": perm, "batch_mask": mask, "redelivered_prefix": dup, "observed": got, "expected": want})
							}
						}
					}
				}
				if sameKey {
					c.CaseBulk(schedules, schedules)
				} else {
					c.CaseBulk(schedules, 0)
				}
				c.Observe("replicas_built", schedules)
				if n == 3 && j.variant == 0 {
					sampleOnce.Do(func() {
						c.Sample(map[string]interface{}{"part": "A", "kind": j.kind, "updates": fmt.Sprint(ups), "schedules": schedules})
					})
				}
			}
		}()
	}
	maxN := c.Pick(4, 5)
	for kind := 0; kind < 3; kind++ {
		for variant := 0; variant < 3; variant++ {
			for n := 1; n <= maxN; n++ {
				if n == 5 && variant != 0 {
					continue
				}
				total := 1 << (2 * uint(n))
				for idx := 0; idx < total; idx++ {
					shape := make([]int, n)
					x := idx
					for i := 0; i < n; i++ {
						shape[i] = x & 3
						x >>= 2
					}
					jobs <- job{kind, variant, shape}
				}
			}
		}
	}
	close(jobs)
	wg.Wait()
	c.Exhaustive(false)
	c.Extra("exhaustive_part", fmt.Sprintf("part A: all update lists of length <=%d over 2 keys, all orders x prefix re-deliveries x batchings", maxN))

	// ---- part B (single goroutine: the replicated state's clock is a package variable) ----
	scen := c.Pick(300, 3000)
	for s := 0; s < scen; s++ {
		c08Scenario(c, s)
	}
	// concurrent arrival: a node's own writes on one retained topic while a peer's ahead-stamped updates
	// of it are merged; the node must end up with what a follower fed with the same updates has
	// retained writes under coarse clocks (two writes of one node inside one tick, clocks of the two nodes
	// never equal): the nodes must still agree once everything is exchanged
	c10Stalled(c)
	for r := 0; r < c.Pick(2, 10); r++ {
		c20HotTopic(c, 800+r)
		// eight updates of one session / subscription / retained topic merged by eight goroutines at once:
		// the newest must survive
		for k := 0; k < 8; k++ {
			c20MergeRace(c, 800+10*r+k)
		}
	}
}

func nonNilS(s *api.SessionMetadatas) []*api.SessionMetadatas {
	if s == nil {
		return nil
	}
	return []*api.SessionMetadatas{s}
}
func nonNilSub(s *api.Subscription) []*api.Subscription {
	if s == nil {
		return nil
	}
	return []*api.Subscription{s}
}
func nonNilT(s *api.RetainedMessage) []*api.RetainedMessage {
	if s == nil {
		return nil
	}
	return []*api.RetainedMessage{s}
}

// crdtWorld drives several origin replicas with offset clocks. Shared by C08-C10.
type crdtWorld struct {
	rg      *rand.Rand
	tick    int64
	active  int
	offsets []int64
	nodes   []*kit.Replica
	pending [][][]byte // per origin: broadcasts not yet delivered to the other origins
	all     [][]byte   // every broadcast ever queued, in issue order
	allFrom []int
	trace   []string
	sessSeq int
	// knowledge used by the generator
	sessions  []string       // ids ever created
	sessHost  map[string]int // hosting origin
	noCollect bool           // leave freshly queued broadcasts in the node's queue (the caller drains)
	force     int            // >= 0: the node that performs the next step
	last      string
}

func newCrdtWorld(rg *rand.Rand, offsets []int64) *crdtWorld {
	w := &crdtWorld{rg: rg, offsets: offsets, sessHost: map[string]int{}, force: -1}
	for i := range offsets {
		w.nodes = append(w.nodes, kit.NewReplica(uint64(i+1)))
		w.pending = append(w.pending, nil)
	}
	distributed.VerifSetClock(func() int64 {
		w.tick++
		return c08Base + w.tick + w.offsets[w.active]
	})
	return w
}

var crdtFilters = []string{"mp/a", "mp/a/b", "mp/a/+", "mp/#", "mp/b"}
var crdtTopics = []string{"mp/t", "mp/t/u", "mp/u", "mp/t/", "mp/$sys/t"}

// collect moves node i's freshly queued broadcasts to the pending lists.
func (w *crdtWorld) collect(i int) [][]byte {
	bs := w.nodes[i].Drain()
	for _, b := range bs {
		w.all = append(w.all, b)
		w.allFrom = append(w.allFrom, i)
		w.pending[i] = append(w.pending[i], b)
	}
	return bs
}

// step performs one random mutator call (bulk operations only if bulk is set).
func (w *crdtWorld) step(bulk bool) {
	i := w.rg.Intn(len(w.nodes))
	if w.force >= 0 {
		i = w.force
	}
	w.active = i
	n := w.nodes[i]
	r := w.rg.Intn(100)
	switch {
	case r < 15:
		w.sessSeq++
		id := fmt.Sprintf("S%d", w.sessSeq)
		client := fmt.Sprintf("c%d", w.rg.Intn(3))
		if w.rg.Intn(5) == 0 {
			client = "" // MQTT allows a zero-length client identifier with a clean session
		}
		var lwt *packet.Publish
		if w.rg.Intn(3) == 0 {
			lwt = &packet.Publish{Header: &packet.Header{}, Topic: []byte("mp/will"), Payload: []byte(id)}
		}
		err := n.S.SessionMetadatas().Create(id, client, int64(w.sessSeq), lwt, "mp")
		w.sessions = append(w.sessions, id)
		w.sessHost[id] = i
		w.trace = append(w.trace, fmt.Sprintf("n%d.sessions.Create(%s,%s) err=%v", i+1, id, client, err))
	case r < 25 && len(w.sessions) > 0:
		id := w.sessions[w.rg.Intn(len(w.sessions))]
		err := n.S.SessionMetadatas().Delete(id)
		w.trace = append(w.trace, fmt.Sprintf("n%d.sessions.Delete(%s) err=%v", i+1, id, err))
	case r < 50 && len(w.sessions) > 0:
		id := w.sessions[w.rg.Intn(len(w.sessions))]
		f := crdtFilters[w.rg.Intn(len(crdtFilters))]
		q := int32(w.rg.Intn(3))
		host := w.sessHost[id]
		if w.force >= 0 {
			host = w.force
		}
		w.active = host
		err := w.nodes[host].S.Subscriptions().Create(id, []byte(f), q)
		i = host
		w.trace = append(w.trace, fmt.Sprintf("n%d.subs.Create(%s,%s,q%d) err=%v", host+1, id, f, q, err))
	case r < 62 && len(w.sessions) > 0:
		id := w.sessions[w.rg.Intn(len(w.sessions))]
		f := crdtFilters[w.rg.Intn(len(crdtFilters))]
		err := n.S.Subscriptions().Delete(id, []byte(f))
		w.trace = append(w.trace, fmt.Sprintf("n%d.subs.Delete(%s,%s) err=%v", i+1, id, f, err))
	case r < 80:
		t := crdtTopics[w.rg.Intn(len(crdtTopics))]
		payload := fmt.Sprintf("p%d", w.tick)
		err := n.S.Topics().Set(&packet.Publish{Header: &packet.Header{Retain: true}, Topic: []byte(t), Payload: []byte(payload)})
		w.trace = append(w.trace, fmt.Sprintf("n%d.topics.Set(%s=%s) err=%v", i+1, t, payload, err))
	case r < 88:
		t := crdtTopics[w.rg.Intn(len(crdtTopics))]
		err := n.S.Topics().Delete([]byte(t))
		w.trace = append(w.trace, fmt.Sprintf("n%d.topics.Delete(%s) err=%v", i+1, t, err))
	case bulk && r < 92 && len(w.sessions) > 0:
		id := w.sessions[w.rg.Intn(len(w.sessions))]
		n.S.Subscriptions().DeleteSession(id)
		w.trace = append(w.trace, fmt.Sprintf("n%d.subs.DeleteSession(%s)", i+1, id))
	case bulk && r < 96:
		p := uint64(1 + w.rg.Intn(len(w.nodes)))
		n.S.Subscriptions().DeletePeer(p)
		w.trace = append(w.trace, fmt.Sprintf("n%d.subs.DeletePeer(%d)", i+1, p))
	case bulk:
		p := uint64(1 + w.rg.Intn(len(w.nodes)))
		err := n.S.SessionMetadatas().DeletePeer(p)
		w.trace = append(w.trace, fmt.Sprintf("n%d.sessions.DeletePeer(%d) err=%v", i+1, p, err))
	default:
		return
	}
	if !w.noCollect {
		w.collect(i)
	}
}

// gossip delivers a random part of the pending broadcasts among origins.
func (w *crdtWorld) gossip(all bool) {
	for i := range w.nodes {
		keep := [][]byte{}
		for _, b := range w.pending[i] {
			if all || w.rg.Intn(4) != 0 {
				for j := range w.nodes {
					if j != i {
						w.nodes[j].Deliver(b)
					}
				}
			} else {
				keep = append(keep, b)
			}
		}
		w.pending[i] = keep
	}
	if !all {
		w.trace = append(w.trace, "gossip(partial)")
	}
}

func c08Scenario(c *fw.Ctx, s int) {
	rg := c.SubRng("c08/scenario", s)
	w := newCrdtWorld(rg, []int64{10000000000, -10000000000, 0})
	steps := 20 + rg.Intn(41)
	for i := 0; i < steps; i++ {
		w.step(s%2 == 1) // odd scenarios: with bulk removals (DeleteSession, DeletePeer of this or another node)
		if rg.Intn(2) == 0 {
			w.gossip(false)
		}
	}
	w.gossip(true)
	ref := model.NewLWW()
	sameKey := false
	for _, b := range w.all {
		ev, err := kit.DecodeEvent(b)
		if err != nil {
			c.Violation("broadcast-undecodable", "a queued broadcast does not decode: "+err.Error(), nil)
			return
		}
		before := len(ref.Sessions) + len(ref.Subs) + len(ref.Topics)
		n := len(ev.SessionMetadatas) + len(ev.Subscriptions) + len(ev.RetainedMessages)
		ref.ApplyEvent(ev)
		if len(ref.Sessions)+len(ref.Subs)+len(ref.Topics) < before+n {
			sameKey = true
		}
	}
	if ref.Ties > 0 {
		// two different updates of one key carry the same timestamp (two nodes stamped
		// concurrent writes right after the same newer entry): the winner is undefined
		c.Observe("scenarios_without_verdict_timestamp_tie", 1)
		return
	}
	want := refCanon(ref).String()
	for i, n := range w.nodes {
		if got := n.Canon().String(); got != want {
			c.Violation("origin-diverges", fmt.Sprintf("scenario %d: origin n%d (clock offset %d) shows %s but the LWW reference over all broadcasts is %s", s, i+1, w.offsets[i], got, want),
				map[string]interface{}{"scenario": s, "node": i + 1, "calls": w.trace, "observed": got, "expected": want})
			return
		}
	}
	followers := 8
	for f := 0; f < followers; f++ {
		r := kit.NewReplica(uint64(50 + f))
		order := rg.Perm(len(w.all))
		// delivery sequence: shuffled order with random re-deliveries, cut into random batches
		seq := []int{}
		for _, idx := range order {
			seq = append(seq, idx)
			if rg.Intn(4) == 0 {
				seq = append(seq, order[rg.Intn(len(order))])
			}
		}
		for i := 0; i < len(seq); {
			n := 1
			if rg.Intn(3) == 0 {
				n = 1 + rg.Intn(4)
			}
			if i+n > len(seq) {
				n = len(seq) - i
			}
			merged := &api.StateBroadcastEvent{}
			for _, idx := range seq[i : i+n] {
				e, _ := kit.DecodeEvent(w.all[idx])
				merged.SessionMetadatas = append(merged.SessionMetadatas, e.SessionMetadatas...)
				merged.Subscriptions = append(merged.Subscriptions, e.Subscriptions...)
				merged.RetainedMessages = append(merged.RetainedMessages, e.RetainedMessages...)
			}
			r.Deliver(kit.EncodeEvent(merged))
			i += n
		}
		got := r.Canon().String()
		c.Case(fmt.Sprintf("B|%d|%v", s, order), sameKey)
		if got != want {
			c.Violation("follower-diverges", fmt.Sprintf("scenario %d: a follower that received all %d broadcasts (order %v) shows %s, reference %s", s, len(w.all), order, got, want),
				map[string]interface{}{"scenario": s, "calls": w.trace, "order": order, "observed": got, "expected": want})
			return
		}
	}
	c.Observe("scenario_broadcasts", len(w.all))
	if s < 2 {
		c.Sample(map[string]interface{}{"part": "B", "scenario": s, "calls": tailStrings(w.trace, 12), "broadcasts": len(w.all)})
	}
}
