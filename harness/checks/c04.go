package checks

import (
	"fmt"
	"math/rand"
	"runtime"
	"sort"
	"strings"
	"sync"
	"sync/atomic"
	"time"

	"github.com/vx-labs/mqtt-protocol/packet"
	"github.com/vx-labs/wasp/v4/wasp/ack"
	"github.com/vx-labs/wasp/v4/wasp/expiration"

	"wv/fw"
)

// C04 — every in-flight entry is resolved exactly once and independently.

func init() {
	fw.Register("C04", fw.Spec{Run: runC04})
}

var c04T0 = time.Unix(1700000000, 0)

// deadline / sweep offsets in milliseconds: equal, same-second, past, future.
var c04Offsets = []int{0, 200, 400, 499, 500, 501, 600, 900, 1000, 1400, 1500, 1600, 2000, 2300, 3000, 4200}

type c04Op struct {
	Kind    byte // 'I' insert, 'A' ack, 'E' expire sweep
	Sess    int
	ID      int32
	PktKind int  // insert: 0 publish qos1, 1 publish qos2, 2 pubrec, 3 pubrel ; ack: 0 PUBACK 1 PUBREC 2 PUBREL 3 PUBCOMP
	AtMs    int  // deadline (I) or sweep time (E), ms after T0
	Rearm   bool // insert: the expiry callback registers the same key again (as the writer does)
}

func (o c04Op) String() string {
	switch o.Kind {
	case 'I':
		r := ""
		if o.Rearm {
			r = ",rearm"
		}
		return fmt.Sprintf("I(s%d,%d,%s,d=%dms%s)", o.Sess, o.ID, []string{"pub1", "pub2", "pubrec", "pubrel"}[o.PktKind], o.AtMs, r)
	case 'A':
		return fmt.Sprintf("A(s%d,%d,%s)", o.Sess, o.ID, []string{"PUBACK", "PUBREC", "PUBREL", "PUBCOMP"}[o.PktKind])
	default:
		return fmt.Sprintf("E(now=%dms)", o.AtMs)
	}
}

func c04InsertPacket(kind int, id int32) packet.Packet {
	switch kind {
	case 0:
		return &packet.Publish{Header: &packet.Header{Qos: 1}, MessageId: id, Topic: []byte("t")}
	case 1:
		return &packet.Publish{Header: &packet.Header{Qos: 2}, MessageId: id, Topic: []byte("t")}
	case 2:
		return &packet.PubRec{Header: &packet.Header{}, MessageId: id}
	default:
		return &packet.PubRel{Header: &packet.Header{}, MessageId: id}
	}
}

// expected acknowledgement type index for an inserted packet kind
var c04Expect = []int{0, 1, 2, 3}

func c04AckPacket(kind int, id int32) packet.Packet {
	switch kind {
	case 0:
		return &packet.PubAck{Header: &packet.Header{}, MessageId: id}
	case 1:
		return &packet.PubRec{Header: &packet.Header{}, MessageId: id}
	case 2:
		return &packet.PubRel{Header: &packet.Header{}, MessageId: id}
	default:
		return &packet.PubComp{Header: &packet.Header{}, MessageId: id}
	}
}

type c04Entry struct {
	tag      int
	expect   int
	deadline int // ms
	rearm    bool
	stored   packet.Packet
}

type c04Outcome struct {
	tag     int
	expired bool
}

// c04RunHistory executes a sequential history on a fresh queue.
func c04RunHistory(ops []c04Op) (fail *c06Fail, outcomes int) {
	defer func() {
		if r := recover(); r != nil {
			fail = &c06Fail{"panic", fmt.Sprintf("panic: %v", r)}
		}
	}()
	q := ack.NewQueue()
	type key struct {
		s  int
		id int32
	}
	live := map[key]*c04Entry{}
	fired := map[int][]c04Outcome{} // tag -> outcomes
	accepted := map[int]bool{}
	var events []c04Outcome
	var cbErr *c06Fail
	nextTag := 0
	lastSweep := 0

	var register func(k key, pktKind int, deadline int, rearm bool) (int, error)
	register = func(k key, pktKind int, deadline int, rearm bool) (int, error) {
		tag := nextTag
		nextTag++
		pkt := c04InsertPacket(pktKind, k.id)
		err := q.Insert(c04SessName(k.s), pkt, c04T0.Add(time.Duration(deadline)*time.Millisecond), func(expired bool, stored, received packet.Packet) {
			events = append(events, c04Outcome{tag, expired})
			fired[tag] = append(fired[tag], c04Outcome{tag, expired})
			if stored != pkt && cbErr == nil {
				cbErr = &c06Fail{"callback-wrong-stored-packet", fmt.Sprintf("callback of registration #%d received another entry's packet", tag)}
			}
			if expired && received != nil && cbErr == nil {
				cbErr = &c06Fail{"callback-args", fmt.Sprintf("expired callback of #%d got a received packet", tag)}
			}
			if expired && rearm {
				// as the writer does: register the same exchange again, 3 s later
				e := live[k]
				nd := lastSweep + 3000
				ntag, err := register(k, pktKind, nd, false)
				if err != nil {
					if cbErr == nil {
						cbErr = &c06Fail{"rearm-rejected", fmt.Sprintf("re-registering %v from its own expiry callback failed: %v", k, err)}
					}
					return
				}
				_ = e
				live[k] = &c04Entry{tag: ntag, expect: c04Expect[pktKind], deadline: nd}
				accepted[ntag] = true
			}
		})
		return tag, err
	}

	for i, op := range ops {
		before := len(events)
		switch op.Kind {
		case 'I':
			k := key{op.Sess, op.ID}
			old, present := live[k]
			tag, err := register(k, op.PktKind, op.AtMs, op.Rearm)
			if present {
				if err == nil {
					return &c06Fail{"duplicate-accepted", fmt.Sprintf("op %d %v: duplicate identifier was accepted while #%d is in flight", i, op, old.tag)}, len(events)
				}
			} else {
				if err != nil {
					return &c06Fail{"insert-rejected", fmt.Sprintf("op %d %v: rejected although the key is free: %v", i, op, err)}, len(events)
				}
				live[k] = &c04Entry{tag: tag, expect: c04Expect[op.PktKind], deadline: op.AtMs, rearm: op.Rearm}
				accepted[tag] = true
			}
			if len(events) != before {
				return &c06Fail{"insert-fired", fmt.Sprintf("op %d %v fired callbacks %v", i, op, events[before:])}, len(events)
			}
		case 'A':
			k := key{op.Sess, op.ID}
			e, present := live[k]
			err := q.Ack(c04SessName(op.Sess), c04AckPacket(op.PktKind, op.ID))
			got := events[before:]
			if present && e.expect == op.PktKind {
				if len(got) != 1 || got[0].tag != e.tag || got[0].expired {
					return &c06Fail{"ack-not-resolved", fmt.Sprintf("op %d %v: expected exactly the outcome acknowledged(#%d), got %v (err=%v)", i, op, e.tag, got, err)}, len(events)
				}
				delete(live, k)
			} else {
				if len(got) != 0 {
					return &c06Fail{"ack-fired-other", fmt.Sprintf("op %d %v: must resolve nothing, fired %v", i, op, got)}, len(events)
				}
			}
		case 'E':
			lastSweep = op.AtMs
			// snapshot of what is live before the sweep (re-arms add entries during it)
			type le struct {
				k key
				e *c04Entry
			}
			pre := []le{}
			for k, e := range live {
				pre = append(pre, le{k, e})
			}
			q.Expire(c04T0.Add(time.Duration(op.AtMs) * time.Millisecond))
			got := events[before:]
			firedNow := map[int]int{}
			for _, g := range got {
				if !g.expired {
					return &c06Fail{"sweep-fired-ack", fmt.Sprintf("op %d %v fired a non-expiry outcome %v", i, op, g)}, len(events)
				}
				firedNow[g.tag]++
			}
			preTags := map[int]bool{}
			for _, p := range pre {
				preTags[p.e.tag] = true
				n := firedNow[p.e.tag]
				switch {
				case n > 1:
					return &c06Fail{"expired-twice", fmt.Sprintf("op %d %v: #%d expired %d times", i, op, p.e.tag, n)}, len(events)
				case p.e.deadline <= op.AtMs-1000 && n == 0:
					return &c06Fail{"not-expired", fmt.Sprintf("op %d %v: #%d (key %v, deadline %dms) is more than 1 s overdue and was not expired", i, op, p.e.tag, p.k, p.e.deadline)}, len(events)
				case p.e.deadline >= op.AtMs+1000 && n != 0:
					return &c06Fail{"expired-early", fmt.Sprintf("op %d %v: #%d (deadline %dms) expired more than 1 s early", i, op, p.e.tag, p.e.deadline)}, len(events)
				}
				if n == 1 && live[p.k] == p.e {
					delete(live, p.k)
				}
			}
			for tag := range firedNow {
				if !preTags[tag] {
					// may be a re-armed entry created during this very sweep: it has deadline now+3s and must not fire
					return &c06Fail{"sweep-fired-unknown", fmt.Sprintf("op %d %v: fired #%d which was not in flight before the sweep", i, op, tag)}, len(events)
				}
			}
		}
		if cbErr != nil {
			return cbErr, len(events)
		}
	}
	// final sweep far in the future: every accepted registration has exactly one outcome
	for round := 0; round < 3; round++ {
		lastSweep = 100000000 * (round + 1)
		q.Expire(c04T0.Add(time.Duration(lastSweep) * time.Millisecond))
	}
	if cbErr != nil {
		return cbErr, len(events)
	}
	for tag := 0; tag < nextTag; tag++ {
		n := len(fired[tag])
		if accepted[tag] && n != 1 {
			return &c06Fail{"outcome-count", fmt.Sprintf("registration #%d ended with %d outcomes %v after the final sweeps (want exactly 1)", tag, n, fired[tag])}, len(events)
		}
		if !accepted[tag] && n != 0 {
			return &c06Fail{"rejected-fired", fmt.Sprintf("rejected registration #%d fired %v", tag, fired[tag])}, len(events)
		}
	}
	return nil, len(events)
}

// session names and identifiers are chosen so that name+id coincide across sessions
// ("s1"+"23", "s12"+"3", "s"+"123"): entries of different sessions must stay independent anyway
func c04SessName(i int) string { return []string{"s1", "s12", "s"}[i%3] }

var c04IDs = []int32{3, 23, 123, 1, 2}

func c04GenHistory(rg *rand.Rand) []c04Op {
	n := 5 + rg.Intn(36)
	sessions := 2 + rg.Intn(2)
	ops := make([]c04Op, 0, n)
	monotonic := rg.Intn(4) != 0
	now := 0
	for i := 0; i < n; i++ {
		r := rg.Intn(100)
		switch {
		case r < 45:
			ops = append(ops, c04Op{Kind: 'I', Sess: rg.Intn(sessions), ID: c04IDs[rg.Intn(4)], PktKind: rg.Intn(4),
				AtMs: now + c04Offsets[rg.Intn(len(c04Offsets))] - 1000*rg.Intn(2), Rearm: rg.Intn(5) == 0})
		case r < 75:
			ops = append(ops, c04Op{Kind: 'A', Sess: rg.Intn(sessions), ID: c04IDs[rg.Intn(5)], PktKind: rg.Intn(4)})
		default:
			if monotonic {
				now += c04Offsets[rg.Intn(len(c04Offsets))]
				ops = append(ops, c04Op{Kind: 'E', AtMs: now})
			} else {
				ops = append(ops, c04Op{Kind: 'E', AtMs: c04Offsets[rg.Intn(len(c04Offsets))] + 1000*rg.Intn(4)})
			}
		}
	}
	return ops
}

// ---- expiration.List alone -----------------------------------------------------

type c04Key string

func c04RunList(name string, mk func() expiration.List, rg *rand.Rand) (fail *c06Fail, trace []string) {
	defer func() {
		if r := recover(); r != nil {
			fail = &c06Fail{"panic", fmt.Sprintf("panic: %v", r)}
		}
	}()
	l := mk()
	live := map[c04Key]int{}
	everDeleted := map[c04Key]bool{}
	n := 5 + rg.Intn(40)
	now := 0
	ids := []c04Key{"k1", "k2", "k3", "k4", "k5", "k6"}
	at := func(ms int) time.Time { return c04T0.Add(time.Duration(ms) * time.Millisecond) }
	for i := 0; i < n; i++ {
		r := rg.Intn(100)
		switch {
		case r < 45:
			id := ids[rg.Intn(len(ids))]
			if _, ok := live[id]; ok {
				continue // the queue never inserts a key twice
			}
			d := now + c04Offsets[rg.Intn(len(c04Offsets))] - 1000*rg.Intn(2)
			l.Insert(id, at(d))
			live[id] = d
			trace = append(trace, fmt.Sprintf("Insert(%s,%dms)", id, d))
		case r < 70:
			id := ids[rg.Intn(len(ids))]
			d, ok := live[id]
			if ok {
				l.Delete(id, at(d))
				delete(live, id)
				everDeleted[id] = true
				trace = append(trace, fmt.Sprintf("Delete(%s,%dms)", id, d))
			} else {
				// unknown id: must remove nothing
				d = now + c04Offsets[rg.Intn(len(c04Offsets))]
				l.Delete(id, at(d))
				trace = append(trace, fmt.Sprintf("Delete(%s,%dms)[not present]", id, d))
			}
		default:
			now += c04Offsets[rg.Intn(len(c04Offsets))]
			got := l.Expire(at(now))
			trace = append(trace, fmt.Sprintf("Expire(%dms)=%v", now, got))
			cnt := map[c04Key]int{}
			for _, g := range got {
				k, ok := g.(c04Key)
				if !ok {
					return &c06Fail{"foreign-value", fmt.Sprintf("Expire returned %v", g)}, trace
				}
				cnt[k]++
			}
			for id, d := range live {
				c := cnt[id]
				switch {
				case c > 1:
					return &c06Fail{"returned-twice", fmt.Sprintf("%s returned %d times by one sweep", id, c)}, trace
				case d <= now-1000 && c == 0:
					return &c06Fail{"lost", fmt.Sprintf("%s (deadline %dms) not returned by the sweep at %dms", id, d, now)}, trace
				case d >= now+1000 && c != 0:
					return &c06Fail{"early", fmt.Sprintf("%s (deadline %dms) returned by the sweep at %dms", id, d, now)}, trace
				}
				if c == 1 {
					delete(live, id)
					everDeleted[id] = true // it left the list
				}
			}
			for id := range cnt {
				if _, ok := live[id]; !ok && !everDeleted[id] {
					return &c06Fail{"phantom", fmt.Sprintf("%s returned although never inserted", id)}, trace
				}
			}
		}
	}
	// final: everything live is returned exactly once
	got := l.Expire(at(now + 100000000))
	cnt := map[c04Key]int{}
	for _, g := range got {
		cnt[g.(c04Key)]++
	}
	trace = append(trace, fmt.Sprintf("Expire(+inf)=%v", got))
	for id := range live {
		if cnt[id] != 1 {
			return &c06Fail{"final-count", fmt.Sprintf("%s returned %d times by the final sweep (want 1)", id, cnt[id])}, trace
		}
	}
	return nil, trace
}

// ---- concurrent exactly-once ----------------------------------------------------

func c04Concurrent(c *fw.Ctx, round int) {
	q := ack.NewQueue()
	workers := 8 + round%9
	perWorker := c.Pick(300, 1500)
	var outcomes sync.Map // tag -> *int32
	var accepted, rejected, acksOK int64
	var wg sync.WaitGroup
	stop := make(chan struct{})
	var sweeps int64
	base := c04T0
	// sweeper: sweeps around the deadlines while inserts and acks run
	wg.Add(1)
	go func() {
		defer wg.Done()
		i := 0
		for {
			select {
			case <-stop:
				return
			default:
			}
			q.Expire(base.Add(time.Duration(i%5000) * time.Millisecond))
			atomic.AddInt64(&sweeps, 1)
			i += 137
			runtime.Gosched()
		}
	}()
	var ww sync.WaitGroup
	for w := 0; w < workers; w++ {
		ww.Add(1)
		go func(w int) {
			defer ww.Done()
			rg := c.SubRng(fmt.Sprintf("c04c/%d", round), w)
			for i := 0; i < perWorker; i++ {
				id := int32(1 + rg.Intn(6))
				sess := fmt.Sprintf("s%d", rg.Intn(3)) // keys shared between workers
				tag := w*1000000 + i
				cnt := new(int32)
				d := base.Add(time.Duration(rg.Intn(4000)) * time.Millisecond)
				err := q.Insert(sess, &packet.Publish{Header: &packet.Header{Qos: 1}, MessageId: id}, d, func(expired bool, stored, received packet.Packet) {
					atomic.AddInt32(cnt, 1)
				})
				if err != nil {
					atomic.AddInt64(&rejected, 1)
					// a rejected registration must never fire: keep its counter under a negative key
					outcomes.Store(-tag-1, cnt)
					continue
				}
				outcomes.Store(tag, cnt)
				atomic.AddInt64(&accepted, 1)
				if rg.Intn(4) == 0 {
					// an acknowledgement of the wrong type must leave the entry alone, also while a sweep runs
					q.Ack(sess, &packet.PubRec{Header: &packet.Header{}, MessageId: id})
					q.Ack(sess, &packet.PubComp{Header: &packet.Header{}, MessageId: id})
				}
				if rg.Intn(2) == 0 {
					if q.Ack(sess, &packet.PubAck{Header: &packet.Header{}, MessageId: id}) == nil {
						atomic.AddInt64(&acksOK, 1)
					}
				}
			}
		}(w)
	}
	ww.Wait()
	close(stop)
	wg.Wait()
	for i := 0; i < 3; i++ {
		q.Expire(base.Add(time.Duration(1000000*(i+1)) * time.Second))
	}
	bad := 0
	var witness string
	outcomes.Range(func(k, v interface{}) bool {
		tag := k.(int)
		p := v.(*int32)
		n := atomic.LoadInt32(p)
		if tag >= 0 && n != 1 {
			bad++
			if witness == "" {
				witness = fmt.Sprintf("registration tag %d ended with %d outcomes", tag, n)
			}
		}
		if tag < 0 && n != 0 {
			bad++
			if witness == "" {
				witness = fmt.Sprintf("rejected registration %d fired %d times", -tag-1, n)
			}
		}
		return true
	})
	c.Observe("concurrent_accepted", int(accepted))
	c.Observe("concurrent_rejected_duplicates", int(rejected))
	c.Observe("concurrent_acks_ok", int(acksOK))
	c.Observe("concurrent_sweeps", int(sweeps))
	c.Case(fmt.Sprintf("concurrent|%d", round), true)
	if bad > 0 {
		c.Violation("queue-concurrent:outcome-count", fmt.Sprintf("concurrent round %d (%d workers): %d registrations without exactly one outcome; e.g. %s", round, workers, bad, witness),
			map[string]interface{}{"round": round, "workers": workers, "bad": bad, "example": witness})
	}
}

// c04AckVsSweep: 48 registrations whose deadlines fall into ONE second; six goroutines acknowledge them
// while a sweep for exactly that second runs. Every registration ends with exactly one outcome
// (acknowledged or expired); none may be lost or fire twice.
func c04AckVsSweep(c *fw.Ctx, part int) {
	rounds := c.Pick(400, 4000)
	bad := 0
	var witness string
	for r := 0; r < rounds; r++ {
		q := ack.NewQueue()
		const n = 48
		cnt := make([]int32, n)
		d := c04T0.Add(time.Duration(2+r%3) * time.Second)
		for i := 0; i < n; i++ {
			i := i
			q.Insert(fmt.Sprintf("s%d", i%4), &packet.Publish{Header: &packet.Header{Qos: 1}, MessageId: int32(1 + i/4)}, d.Add(time.Duration(i%400)*time.Millisecond), func(expired bool, stored, received packet.Packet) {
				atomic.AddInt32(&cnt[i], 1)
			})
		}
		start := make(chan struct{})
		var wg sync.WaitGroup
		for g := 0; g < 6; g++ {
			wg.Add(1)
			go func(g int) {
				defer wg.Done()
				<-start
				for i := g; i < n; i += 6 {
					if (i+r)%3 == 0 {
						continue // left to the sweep
					}
					q.Ack(fmt.Sprintf("s%d", i%4), &packet.PubAck{Header: &packet.Header{}, MessageId: int32(1 + i/4)})
				}
			}(g)
		}
		wg.Add(1)
		go func() {
			defer wg.Done()
			<-start
			if r%2 == 0 {
				runtime.Gosched()
			}
			q.Expire(d.Add(2 * time.Second))
		}()
		close(start)
		wg.Wait()
		q.Expire(d.Add(100000 * time.Second))
		q.Expire(d.Add(200000 * time.Second))
		for i := 0; i < n; i++ {
			if k := atomic.LoadInt32(&cnt[i]); k != 1 {
				bad++
				if witness == "" {
					witness = fmt.Sprintf("round %d: registration %d (session s%d id %d) ended with %d outcomes", r, i, i%4, 1+i/4, k)
				}
			}
		}
	}
	c.Observe("ack_vs_sweep_rounds", rounds)
	c.Case(fmt.Sprintf("ack-vs-sweep|%d", part), true)
	if bad > 0 {
		c.Violation("queue-concurrent:outcome-count", fmt.Sprintf("acknowledgements racing the sweep of their own second: %d registrations without exactly one outcome in %d rounds; e.g. %s", bad, rounds, witness),
			map[string]interface{}{"bad": bad, "rounds": rounds, "example": witness})
	}
}

// c04FreshSecond: eight goroutines register the first entries of one not yet used second at the same
// moment; all are acknowledged; the same keys are registered again with a deadline ten seconds later.
// A sweep three seconds after the first deadlines must expire nothing (the acknowledged registrations'
// timers are gone), a sweep after the new deadlines must expire every new registration once.
func c04FreshSecond(c *fw.Ctx, part int) {
	rounds := c.Pick(500, 5000)
	early, lost := 0, 0
	var witness string
	for r := 0; r < rounds; r++ {
		q := ack.NewQueue()
		const g = 8
		d := c04T0.Add(time.Duration(5+r%7) * time.Second)
		var ready, phase int32
		var wg sync.WaitGroup
		for i := 0; i < g; i++ {
			wg.Add(1)
			go func(i int) {
				defer wg.Done()
				atomic.AddInt32(&ready, 1)
				for atomic.LoadInt32(&ready) < g { // spinning barrier: all start together
				}
				q.Insert(fmt.Sprintf("s%d", i), &packet.Publish{Header: &packet.Header{Qos: 1}, MessageId: 1}, d.Add(time.Duration(i)*time.Millisecond), func(bool, packet.Packet, packet.Packet) {})
			}(i)
		}
		wg.Wait()
		for i := 0; i < g; i++ {
			q.Ack(fmt.Sprintf("s%d", i), &packet.PubAck{Header: &packet.Header{}, MessageId: 1})
		}
		fired := make([]int32, g)
		firedEarly := make([]int32, g)
		for i := 0; i < g; i++ {
			i := i
			q.Insert(fmt.Sprintf("s%d", i), &packet.Publish{Header: &packet.Header{Qos: 1}, MessageId: 1}, d.Add(10*time.Second), func(expired bool, _, _ packet.Packet) {
				atomic.AddInt32(&fired[i], 1)
				if atomic.LoadInt32(&phase) == 0 {
					atomic.AddInt32(&firedEarly[i], 1)
				}
			})
		}
		q.Expire(d.Add(3 * time.Second))
		atomic.StoreInt32(&phase, 1)
		q.Expire(d.Add(20 * time.Second))
		q.Expire(d.Add(40 * time.Second))
		for i := 0; i < g; i++ {
			if firedEarly[i] > 0 {
				early++
				if witness == "" {
					witness = fmt.Sprintf("round %d: (s%d,1) was registered in a fresh second together with 7 others, acknowledged, registered again with a deadline 10 s later - and expired at a sweep 7 s before that deadline", r, i)
				}
			} else if fired[i] != 1 {
				lost++
				if witness == "" {
					witness = fmt.Sprintf("round %d: the second registration of (s%d,1) ended with %d outcomes", r, i, fired[i])
				}
			}
		}
	}
	c.Observe("fresh_second_rounds", rounds)
	c.Case(fmt.Sprintf("fresh-second|%d", part), true)
	if early > 0 {
		c.Violation("queue-concurrent:expired-early", fmt.Sprintf("concurrent first registrations of one second: %d later registrations expired before their deadline in %d rounds; e.g. %s", early, rounds, witness), map[string]interface{}{"early": early, "rounds": rounds, "example": witness})
	} else if lost > 0 {
		c.Violation("queue-concurrent:outcome-count", fmt.Sprintf("concurrent first registrations of one second: %d registrations without exactly one outcome in %d rounds; e.g. %s", lost, rounds, witness), map[string]interface{}{"bad": lost, "rounds": rounds, "example": witness})
	}
}

func runC04(c *fw.Ctx) {
	c.Rule = "(i) seeded sequential histories of 5-40 register/acknowledge/sweep operations on the real ack.Queue over 2-3 sessions x identifiers 1-4, deadlines and sweep times drawn from a small set of offsets so that equal, same-second (x.499/x.500/x.501), past and future deadlines collide; some registrations re-register themselves from their expiry callback as the writer does; oracle = map (session,id) -> {expected type, deadline} with a +-1 s band for 'honoured to the second', and exactly-one-outcome after final far-future sweeps. (ii) the expiration.List interface alone, both implementations (hook H4), against a multiset model. (iii) register/acknowledge from 8-16 goroutines on shared keys while a sweeper runs, and acknowledgements from six goroutines racing the sweep of the very second their deadlines fall into; outcome counting only. (iv) eight goroutines open one fresh second together, everything is acknowledged and registered again with a later deadline: nothing may expire before it. distinct = operation sequence; non-trivial = history contains >=2 registrations whose deadlines fall in the same second, or a wrong-type/unknown acknowledgement, or a duplicate registration"
	c.Assume("'honoured to the second': an entry must expire at a sweep >= deadline+1 s, must not at a sweep <= deadline-1 s; inside the band either outcome is accepted and the model follows the implementation")
	c.Assume("identifier 0 is not used (rejected by design)")
	workers := runtime.NumCPU()
	nHist := c.Pick(60000, 600000)
	var wg sync.WaitGroup
	var outcomesSeen int64
	for w := 0; w < workers; w++ {
		wg.Add(1)
		go func(w int) {
			defer wg.Done()
			rg := c.SubRng("c04/seq", w)
			for h := w; h < nHist; h += workers {
				ops := c04GenHistory(rg)
				f, n := c04RunHistory(ops)
				atomic.AddInt64(&outcomesSeen, int64(n))
				key := fmt.Sprint(ops)
				c.Case(key, c04NonTrivial(ops))
				if f != nil {
					c.Violation("queue:"+f.class, fmt.Sprintf("history %v: %s", ops, f.what), map[string]interface{}{"history": strings.Fields(strings.Trim(key, "[]")), "observed": f.what})
				}
				if h < 3 {
					c.Sample(map[string]interface{}{"part": "queue", "history": key})
				}
			}
		}(w)
	}
	wg.Wait()
	c.Observe("queue_outcomes_observed", int(outcomesSeen))
	c.Floor("queue_outcomes_observed", 1000)

	lists := []struct {
		name string
		mk   func() expiration.List
	}{{"pqlist", expiration.VerifNewPQList}, {"skiplist", expiration.VerifNewSkipList}}
	nList := c.Pick(30000, 300000)
	for _, li := range lists {
		li := li
		for w := 0; w < workers; w++ {
			wg.Add(1)
			go func(w int) {
				defer wg.Done()
				rg := c.SubRng("c04/list/"+li.name, w)
				for h := w; h < nList; h += workers {
					f, trace := c04RunList(li.name, li.mk, rg)
					c.Case(li.name+"|"+strings.Join(trace, " "), len(trace) >= 3)
					if f != nil {
						c.Violation(li.name+":"+f.class, fmt.Sprintf("%s: %v: %s", li.name, trace, f.what), map[string]interface{}{"list": li.name, "trace": trace, "observed": f.what})
					}
					if h < 1 {
						c.Sample(map[string]interface{}{"part": li.name, "trace": trace})
					}
				}
			}(w)
		}
		wg.Wait()
		c.Observe("list_histories_"+li.name, nList)
	}

	rounds := c.Pick(40, 300)
	for r := 0; r < rounds; r++ {
		c04Concurrent(c, r)
	}
	var wg2 sync.WaitGroup
	for p := 0; p < 4; p++ {
		wg2.Add(1)
		go func(p int) { defer wg2.Done(); c04AckVsSweep(c, p) }(p)
	}
	wg2.Wait()
	c04FreshSecond(c, 0) // alone: its spinning barrier wants the cores
}

func c04NonTrivial(ops []c04Op) bool {
	secs := map[int]int{}
	keys := map[string]bool{}
	for _, o := range ops {
		switch o.Kind {
		case 'I':
			secs[(o.AtMs+500)/1000]++
			k := fmt.Sprintf("%d/%d", o.Sess, o.ID)
			if keys[k] {
				return true
			}
			keys[k] = true
		case 'A':
			return true
		}
	}
	ss := []int{}
	for _, n := range secs {
		ss = append(ss, n)
	}
	sort.Ints(ss)
	return len(ss) > 0 && ss[len(ss)-1] >= 2
}
