package checks

import (
	"fmt"
	"math/rand"
	"runtime"
	"sort"
	"strings"
	"sync"
	"sync/atomic"
	"time"

	"github.com/vx-labs/wasp/v4/subscriptions"
	"github.com/vx-labs/wasp/v4/wasp/api"

	"wv/fw"
	"wv/kit"
	"wv/model"
)

// C01 — a publish reaches exactly the sessions whose filters match its topic.

func init() {
	fw.Register("C01", fw.Spec{Run: runC01})
}

// all strings of 1..maxL levels over the symbols; '#' only as last level.
func c01Enumerate(symbols []string, maxL int, filter bool) []string {
	var out []string
	var rec func(levels []string)
	rec = func(levels []string) {
		if len(levels) > 0 {
			s := strings.Join(levels, "/")
			if s != "" {
				out = append(out, s)
			}
		}
		if len(levels) == maxL || (len(levels) > 0 && levels[len(levels)-1] == "#") {
			return
		}
		for _, sym := range symbols {
			rec(append(append([]string{}, levels...), sym))
		}
	}
	rec(nil)
	return out
}

// c01Walk returns the multiset of filters reported for topic.
func c01Walk(t subscriptions.Tree, topic string) []string {
	got := []string{}
	t.Walk([]byte(topic), func(b []byte) {
		if len(b) > 0 {
			got = append(got, string(b))
		}
	})
	sort.Strings(got)
	return got
}

func c01Want(active []string, topic string) []string {
	want := []string{}
	for _, f := range active {
		if model.ValidFilter(f) && model.Match(f, topic) {
			want = append(want, f)
		}
	}
	sort.Strings(want)
	return want
}

func c01Set(t subscriptions.Tree, f string) {
	t.Upsert([]byte(f), func([]byte) []byte { return []byte(f) })
}
func c01Unset(t subscriptions.Tree, f string) {
	t.Upsert([]byte(f), func([]byte) []byte { return nil })
}

func c01Class(f, topic string, got, want []string) string {
	has := func(l []string, x string) bool {
		for _, y := range l {
			if y == x {
				return true
			}
		}
		return false
	}
	kind := "extra"
	for _, w := range want {
		if !has(got, w) {
			kind = "missing"
		}
	}
	if len(got) > len(want) && kind != "missing" {
		seen := map[string]bool{}
		for _, g := range got {
			if seen[g] {
				kind = "duplicate"
			}
			seen[g] = true
		}
	}
	feat := []string{}
	if strings.Contains(f, "#") {
		feat = append(feat, "hash")
	}
	if strings.Contains(f, "+") {
		feat = append(feat, "plus")
	}
	for _, l := range strings.Split(f+"\x00"+topic, "\x00") {
		for _, lv := range strings.Split(l, "/") {
			if lv == "" {
				feat = append(feat, "empty-level")
				break
			}
		}
	}
	if len(feat) == 0 {
		feat = append(feat, "literal")
	}
	sort.Strings(feat)
	uniq := []string{}
	for i, x := range feat {
		if i == 0 || feat[i-1] != x {
			uniq = append(uniq, x)
		}
	}
	return kind + ":" + strings.Join(uniq, "+")
}

func runC01(c *fw.Ctx) {
	c.Rule = "(1) trie level: every valid filter of <=4 levels over {a,b,c,+,#,''} ('#' last only) alone x every topic of <=4 levels over {a,b,c,''} - complete; filter sets of size 2-4 (all pairs in the thorough tier, seeded sample in quick) inserted in several orders and through subscribe/unsubscribe/re-subscribe histories ending in the same active set, with malformed filters ('#' not last) as bystanders; oracle = MQTT 3.1.1 4.7 matcher on level arrays, results compared as multisets; Iterate must list exactly the active set. (2) replicated index: seeded Create/Delete histories over 3 sessions x filters, ByPattern(topic) compared with the model after every step, then at a second replica that joins through the full-state exchange and at the first after the echoed exchange and a second delivery of every broadcast. (2b) lookups from 4 goroutines while 4 others subscribe/unsubscribe sibling filters: untouched subscriptions are reported exactly once by every lookup. (3) end to end: broker node over pipes (odd scenarios: two nodes, the publisher on the other one, all subscription changes gossiped together at the end; stale subscriptions of sessions that do not exist are injected as gossip), 3-5 QoS 0 subscriber sessions with generated filter sets (incl. unsubscribe/re-subscribe histories), a QoS 1 publisher sending uniquely tagged payloads (plus up to three RETAIN-flagged zero-length ones) and waiting for each PUBACK, sentinel barrier; per session the multiset of received (topic,tag) must be one copy per matching active filter. distinct = (filter set, order/history, topic); non-trivial = the set has at least one matching and one non-matching (filter,topic) pair"
	c.Assume("'$'-prefixed topics are outside the alphabets; the empty string is neither a topic nor a filter")
	workers := runtime.NumCPU()
	fsyms := []string{"a", "b", "c", "+", "#", ""}
	tsyms := []string{"a", "b", "c", ""}
	filters := c01Enumerate(fsyms, 4, true)
	topics := c01Enumerate(tsyms, 4, false)
	c.Observe("filters_enumerated", len(filters))
	c.Observe("topics_enumerated", len(topics))

	report := func(part string, active []string, history string, topic string, got, want []string) {
		f := ""
		// pick the filter responsible: first in symmetric difference
		m := map[string]int{}
		for _, g := range got {
			m[g]++
		}
		for _, w := range want {
			m[w]--
		}
		for k, v := range m {
			if v != 0 {
				f = k
				break
			}
		}
		c.Violation(part+":"+c01Class(f, topic, got, want),
			fmt.Sprintf("%s: active filters %q (%s), topic %q: reported %q, MQTT matching gives %q", part, active, history, topic, got, want),
			map[string]interface{}{"active": active, "history": history, "topic": topic, "observed": got, "expected": want})
	}

	// ---- (1a) each filter alone, all topics ----------------------------------------
	var wg sync.WaitGroup
	for w := 0; w < workers; w++ {
		wg.Add(1)
		go func(w int) {
			defer wg.Done()
			for i := w; i < len(filters); i += workers {
				f := filters[i]
				t := subscriptions.NewTree()
				c01Set(t, f)
				nm := 0
				for _, topic := range topics {
					got, want := c01Walk(t, topic), c01Want([]string{f}, topic)
					if len(want) > 0 {
						nm++
					}
					if strings.Join(got, "\x00") != strings.Join(want, "\x00") {
						report("trie", []string{f}, "single filter", topic, got, want)
					}
				}
				c.CaseBulk(len(topics), len(topics))
				c.Observe("trie_matches_expected", nm)
			}
		}(w)
	}
	wg.Wait()
	c.Sample(map[string]interface{}{"part": "trie-single", "filter": "a/+/#", "topics": len(topics)})

	// ---- (1b) filter sets -------------------------------------------------------------
	bystanders := []string{"a/#/b", "#/a", "a/#/#", "+/#/c"}
	runSet := func(rg *rand.Rand, set []string, topicSample int) {
		// three ways to reach the same active set
		for variant := 0; variant < 3; variant++ {
			t := subscriptions.NewTree()
			history := ""
			order := rg.Perm(len(set))
			switch variant {
			case 0:
				for _, i := range order {
					c01Set(t, set[i])
				}
				history = fmt.Sprintf("insert order %v", order)
			case 1:
				// subscribe all + extra filters, unsubscribe the extras and one member, re-subscribe it
				extra := filters[rg.Intn(len(filters))]
				by := bystanders[rg.Intn(len(bystanders))]
				c01Set(t, by)
				c01Set(t, extra)
				for _, i := range order {
					c01Set(t, set[i])
				}
				victim := set[order[0]]
				c01Unset(t, victim)
				inSet := false
				for _, s := range set {
					if s == extra {
						inSet = true
					}
				}
				if !inSet {
					c01Unset(t, extra)
				}
				c01Set(t, victim)
				history = fmt.Sprintf("bystander %q, +%q, insert %v, unsub %q, unsub extra, resub %q", by, extra, order, victim, victim)
			case 2:
				for _, i := range order {
					c01Set(t, set[i])
					c01Unset(t, set[i])
				}
				for i := len(order) - 1; i >= 0; i-- {
					c01Set(t, set[order[i]])
				}
				history = "each subscribed, unsubscribed, then all re-subscribed in reverse"
			}
			for k := 0; k < topicSample; k++ {
				topic := topics[(k*7919+rg.Intn(len(topics)))%len(topics)]
				if topicSample >= len(topics) {
					topic = topics[k]
				}
				got, want := c01Walk(t, topic), c01Want(set, topic)
				if variant == 1 {
					// ignore what the malformed bystander itself reports
					g2 := got[:0]
					for _, g := range got {
						if model.ValidFilter(g) {
							g2 = append(g2, g)
						}
					}
					got = g2
				}
				if strings.Join(got, "\x00") != strings.Join(want, "\x00") {
					report("trie-set", set, history, topic, got, want)
				}
			}
			// the enumeration the full-state exchange is built from lists exactly the active set
			all := []string{}
			t.Iterate(func(b []byte) {
				if len(b) > 0 && model.ValidFilter(string(b)) {
					all = append(all, string(b))
				}
			})
			sort.Strings(all)
			wantAll := append([]string{}, set...)
			sort.Strings(wantAll)
			if strings.Join(all, "\x00") != strings.Join(wantAll, "\x00") {
				c.Violation("trie-set:enumeration", fmt.Sprintf("trie-set: active filters %q (%s): Iterate lists %q", set, history, all),
					map[string]interface{}{"active": set, "history": history, "observed": all, "expected": wantAll})
			}
		}
	}
	if c.Quick() {
		nSets := 6000
		for w := 0; w < workers; w++ {
			wg.Add(1)
			go func(w int) {
				defer wg.Done()
				rg := c.SubRng("c01/sets", w)
				for i := w; i < nSets; i += workers {
					k := 2 + rg.Intn(3)
					set := []string{}
					seen := map[string]bool{}
					for len(set) < k {
						f := filters[rg.Intn(len(filters))]
						if !seen[f] {
							seen[f] = true
							set = append(set, f)
						}
					}
					runSet(rg, set, 60)
					c.Case(fmt.Sprintf("set|%v", set), true)
					c.Observe("trie_set_walks", 180)
				}
			}(w)
		}
		wg.Wait()
	} else {
		// all pairs, all topics (variant order fixed by the rng)
		for w := 0; w < workers; w++ {
			wg.Add(1)
			go func(w int) {
				defer wg.Done()
				rg := c.SubRng("c01/pairs", w)
				for i := w; i < len(filters); i += workers {
					for j := i + 1; j < len(filters); j++ {
						runSet(rg, []string{filters[i], filters[j]}, len(topics))
					}
					n := (len(filters) - i - 1) * 3 * len(topics)
					c.CaseBulk(n, n)
					c.Observe("trie_set_walks", n)
				}
			}(w)
		}
		wg.Wait()
		nSets := 40000
		for w := 0; w < workers; w++ {
			wg.Add(1)
			go func(w int) {
				defer wg.Done()
				rg := c.SubRng("c01/sets", w)
				for i := w; i < nSets; i += workers {
					k := 3 + rg.Intn(2)
					set := []string{}
					seen := map[string]bool{}
					for len(set) < k {
						f := filters[rg.Intn(len(filters))]
						if !seen[f] {
							seen[f] = true
							set = append(set, f)
						}
					}
					runSet(rg, set, 100)
					c.Case(fmt.Sprintf("set|%v", set), true)
				}
			}(w)
		}
		wg.Wait()
	}
	c.Sample(map[string]interface{}{"part": "trie-set", "set": []string{"a/+", "a/#", "+/b"}, "variants": "insert order / with bystander+unsub+resub / sub-unsub-resub"})
	c.Exhaustive(false)
	c.Extra("exhaustive_part", fmt.Sprintf("every single filter (%d) x every topic (%d)%s", len(filters), len(topics), map[bool]string{true: "", false: "; every pair of filters x every topic x 3 histories"}[c.Quick()]))

	c01Index(c)
	c01ConcurrentIndex(c)
	c01EndToEnd(c, filters, topics)
}

// ---- (2) replicated index -------------------------------------------------------------

func c01Index(c *fw.Ctx) {
	n := c.Pick(400, 8000)
	fs := []string{"mp/a", "mp/a/b", "mp/a/+", "mp/a/#", "mp/+/b", "mp/#", "mp/b", "mp/a//b", "mp/+", "mp/a/"}
	ts := []string{"mp/a", "mp/a/b", "mp/b", "mp/a/b/c", "mp/a/", "mp/a//b", "mp/c/b", "mp/"}
	for h := 0; h < n; h++ {
		rg := c.SubRng("c01/index", h)
		r := kit.NewReplica(1)
		type key struct{ s, f string }
		active := map[key]int32{}
		steps := 5 + rg.Intn(25)
		trace := []string{}
		for i := 0; i < steps; i++ {
			s := fmt.Sprintf("s%d", rg.Intn(3))
			f := fs[rg.Intn(len(fs))]
			if rg.Intn(3) > 0 {
				q := int32(rg.Intn(3))
				r.S.Subscriptions().Create(s, []byte(f), q)
				active[key{s, f}] = q
				trace = append(trace, fmt.Sprintf("Create(%s,%s,q%d)", s, f, q))
			} else {
				r.S.Subscriptions().Delete(s, []byte(f))
				delete(active, key{s, f})
				trace = append(trace, fmt.Sprintf("Delete(%s,%s)", s, f))
			}
			topic := ts[rg.Intn(len(ts))]
			got := []string{}
			for _, sub := range r.S.Subscriptions().ByPattern([]byte(topic)) {
				got = append(got, fmt.Sprintf("%s %s q%d", sub.SessionID, sub.Pattern, sub.QoS))
			}
			want := []string{}
			for k, q := range active {
				if model.Match(k.f, topic) {
					want = append(want, fmt.Sprintf("%s %s q%d", k.s, k.f, q))
				}
			}
			sort.Strings(got)
			sort.Strings(want)
			c.Observe("index_lookups", 1)
			if strings.Join(got, ";") != strings.Join(want, ";") {
				c.Violation("index:mismatch", fmt.Sprintf("replicated index after %v: ByPattern(%q) = %q, want %q", trace, topic, got, want),
					map[string]interface{}{"history": trace, "topic": topic, "observed": got, "expected": want})
				break
			}
		}
		// a node that joins later learns the index through the full-state exchange; the exchange is
		// echoed back and every broadcast is delivered a second time: lookups stay the same everywhere
		late := kit.NewReplica(2)
		bcasts := r.Drain()
		late.S.Distributor().MergeRemoteState(r.S.Distributor().LocalState(true), true)
		r.S.Distributor().MergeRemoteState(late.S.Distributor().LocalState(false), false)
		for _, b := range bcasts {
			r.Deliver(b)
			late.Deliver(b)
		}
		late.Drain()
		for _, rep := range []*kit.Replica{r, late} {
			for _, topic := range ts {
				got := []string{}
				for _, sub := range rep.S.Subscriptions().ByPattern([]byte(topic)) {
					got = append(got, fmt.Sprintf("%s %s q%d", sub.SessionID, sub.Pattern, sub.QoS))
				}
				want := []string{}
				for k, q := range active {
					if model.Match(k.f, topic) {
						want = append(want, fmt.Sprintf("%s %s q%d", k.s, k.f, q))
					}
				}
				sort.Strings(got)
				sort.Strings(want)
				c.Observe("index_lookups", 1)
				if strings.Join(got, ";") != strings.Join(want, ";") {
					who := map[uint64]string{1: "the originating node after the echoed exchange and duplicate deliveries", 2: "a node that joined later (full-state exchange)"}[rep.ID]
					c.Violation("index:exchange-mismatch", fmt.Sprintf("replicated index after %v: ByPattern(%q) at %s = %q, want %q", trace, topic, who, got, want),
						map[string]interface{}{"history": trace, "topic": topic, "observed": got, "expected": want, "replica": rep.ID})
					break
				}
			}
		}
		c.Case("index|"+strings.Join(trace, " "), len(active) > 0)
		if h == 0 {
			c.Sample(map[string]interface{}{"part": "index", "history": trace})
		}
	}
}

// c01ConcurrentIndex: recipient lookups run while sibling filters are subscribed and unsubscribed.
// Subscriptions that are never touched must be reported by every lookup, exactly once.
func c01ConcurrentIndex(c *fw.Ctx) {
	rounds := c.Pick(8, 40)
	for r := 0; r < rounds; r++ {
		rep := kit.NewReplica(1)
		stable := map[string]bool{}
		for i, f := range []string{"mp/a/b", "mp/a/+", "mp/#", "mp/+/b"} {
			sid := fmt.Sprintf("st%d", i)
			rep.S.Subscriptions().Create(sid, []byte(f), 0)
			stable[sid+" "+f] = true
		}
		rep.S.Subscriptions().Create("st9", []byte("mp/a/c"), 0) // does not match the looked-up topic
		var wg sync.WaitGroup
		var bad atomic.Value
		var lookups int64
		stop := make(chan struct{})
		for g := 0; g < 4; g++ {
			wg.Add(1)
			go func(g int) {
				defer wg.Done()
				for i := 0; ; i++ {
					select {
					case <-stop:
						return
					default:
					}
					seen := map[string]int{}
					for _, sub := range rep.S.Subscriptions().ByPattern([]byte("mp/a/b")) {
						seen[sub.SessionID+" "+string(sub.Pattern)]++
					}
					atomic.AddInt64(&lookups, 1)
					for k := range stable {
						if seen[k] != 1 {
							bad.Store(fmt.Sprintf("lookup of mp/a/b while sibling filters change reported the untouched subscription (%s) %d time(s)", k, seen[k]))
						}
					}
					if seen["st9 mp/a/c"] != 0 {
						bad.Store("lookup of mp/a/b reported the subscription (st9 mp/a/c)")
					}
				}
			}(g)
		}
		var mw sync.WaitGroup
		for g := 0; g < 4; g++ {
			mw.Add(1)
			go func(g int) {
				defer mw.Done()
				rg := c.SubRng(fmt.Sprintf("c01/conc/%d", r), g)
				for i := 0; i < 2500; i++ {
					f := []string{"mp/a/b", "mp/a/x", "mp/a/y/z", "mp/a/+", "mp/b/b", "mp/a", fmt.Sprintf("mp/a/n%d", rg.Intn(40)), fmt.Sprintf("mp/n%d/b", rg.Intn(40))}[rg.Intn(8)]
					sid := fmt.Sprintf("vol%d-%d", g, rg.Intn(3))
					if rg.Intn(2) == 0 {
						rep.S.Subscriptions().Create(sid, []byte(f), 0)
					} else {
						rep.S.Subscriptions().Delete(sid, []byte(f))
					}
				}
			}(g)
		}
		mw.Wait()
		close(stop)
		wg.Wait()
		c.Observe("concurrent_index_lookups", int(lookups))
		c.Case(fmt.Sprintf("concurrent-index|%d", r), true)
		if v := bad.Load(); v != nil {
			c.Violation("index:concurrent-lookup", fmt.Sprintf("replicated index, round %d: %s", r, v.(string)), map[string]interface{}{"round": r})
			return
		}
	}
}

// ---- (3) end to end ---------------------------------------------------------------------

func c01EndToEnd(c *fw.Ctx, filters, topics []string) {
	scenarios := c.Pick(24, 400)
	par := 8
	sem := make(chan struct{}, par)
	var wg sync.WaitGroup
	for s := 0; s < scenarios; s++ {
		wg.Add(1)
		sem <- struct{}{}
		go func(s int) {
			defer wg.Done()
			defer func() { <-sem }()
			c01Scenario(c, s, filters, topics)
		}(s)
	}
	wg.Wait()
	c.Floor("e2e_deliveries_compared", 50)
}

func c01Scenario(c *fw.Ctx, s int, filters, topics []string) {
	rg := c.SubRng("c01/e2e", s)
	cl := kit.NewCluster(kit.WorkDir("c01"))
	defer cl.Close()
	n, err := cl.AddNode(kit.NodeOpts{ID: 1})
	if err != nil {
		c.Inconclusive("cannot start node: " + err.Error())
		return
	}
	fw.LogCase("C01 e2e scenario %d", s)
	// odd scenarios: a second node; the publisher connects there, so every message has to be forwarded
	// on the strength of what gossip told that node about the subscriptions (all subscription changes of
	// the scenario are gossiped together, after the last one)
	pubNode := n
	if s%2 == 1 {
		n2, err := cl.AddNode(kit.NodeOpts{ID: 2})
		if err != nil {
			c.Inconclusive("cannot start node: " + err.Error())
			return
		}
		pubNode = n2
	}
	// stale gossip: subscriptions attributed to this node whose sessions do not exist here (any more);
	// they are recipients of nothing, and must not stand in the way of the real ones
	for k, f := range []string{"#", "+", "a/#", "a/+", "+/b", "b", "a"} {
		if (s+k)%2 == 0 {
			continue
		}
		n.State.Distributor().NotifyMsg(kit.EncodeEvent(&api.StateBroadcastEvent{Subscriptions: []*api.Subscription{{
			SessionID: fmt.Sprintf("ghost-%d", k), Pattern: []byte("_default/" + f), Peer: 1, QoS: int32(k % 3), LastAdded: time.Now().UnixNano()}}}))
		c.Observe("e2e_stale_subscriptions_injected", 1)
	}
	nSubs := 3 + rg.Intn(3)
	type subr struct {
		cl     *kit.Client
		active map[string]bool
		hist   []string
	}
	subs := []*subr{}
	pick := func() string {
		// bias towards short filters so that matches are frequent
		for {
			f := filters[rg.Intn(len(filters))]
			if strings.Count(f, "/") <= 2 || rg.Intn(3) == 0 {
				return f
			}
		}
	}
	for i := 0; i < nSubs; i++ {
		cc, err := n.MustConnect(kit.ConnectOpts{ClientID: fmt.Sprintf("sub%d-%d", s, i), KeepAlive: 120, Clean: true})
		if err != nil {
			c.Inconclusive(fmt.Sprintf("scenario %d: subscriber connect: %v", s, err))
			return
		}
		defer cc.Close()
		su := &subr{cl: cc, active: map[string]bool{}}
		k := rg.Intn(4) // 0..3 filters
		for j := 0; j < k; j++ {
			f := pick()
			if err := cc.Sub1(f, 0); err != nil {
				c.Inconclusive(fmt.Sprintf("scenario %d: subscribe %q: %v", s, f, err))
				return
			}
			su.active[f] = true
			su.hist = append(su.hist, "sub "+f)
			if rg.Intn(4) == 0 {
				if err := cc.Unsubscribe([]string{f}); err != nil {
					c.Inconclusive(fmt.Sprintf("scenario %d: unsubscribe: %v", s, err))
					return
				}
				delete(su.active, f)
				su.hist = append(su.hist, "unsub "+f)
				if rg.Intn(2) == 0 {
					if err := cc.Sub1(f, 0); err != nil {
						c.Inconclusive(fmt.Sprintf("scenario %d: re-subscribe: %v", s, err))
						return
					}
					su.active[f] = true
					su.hist = append(su.hist, "resub "+f)
				}
			}
		}
		if err := cc.Sub1("zz/sentinel", 0); err != nil {
			c.Inconclusive(fmt.Sprintf("scenario %d: sentinel subscribe: %v", s, err))
			return
		}
		subs = append(subs, su)
	}
	cl.Quiesce() // gossip barrier
	pub, err := pubNode.MustConnect(kit.ConnectOpts{ClientID: fmt.Sprintf("pub%d", s), KeepAlive: 120, Clean: true})
	if err != nil {
		c.Inconclusive(fmt.Sprintf("scenario %d: publisher connect: %v", s, err))
		return
	}
	defer pub.Close()
	nPub := 20 + rg.Intn(15)
	type sent struct{ topic, tag string }
	sentList := []sent{}
	for i := 0; i < nPub; i++ {
		var topic string
		if rg.Intn(3) == 0 {
			topic = topics[rg.Intn(len(topics))]
		} else {
			// derive a topic from some subscriber's filter so that matches happen
			su := subs[rg.Intn(len(subs))]
			topic = topics[rg.Intn(len(topics))]
			for f := range su.active {
				t := strings.NewReplacer("+", []string{"a", "b", ""}[rg.Intn(3)], "#", []string{"a", "b/c", "a"}[rg.Intn(3)]).Replace(f)
				if rg.Intn(2) == 0 && strings.HasSuffix(f, "/#") {
					t = strings.TrimSuffix(f, "/#")
					t = strings.ReplaceAll(t, "+", "c")
				}
				if model.ValidTopic(t) {
					topic = t
				}
				break
			}
		}
		tag := fmt.Sprintf("m%d-%d", s, i)
		acked, err := pub.Publish(topic, []byte(tag), 1, false, kit.DefaultWait)
		if !acked {
			c.Inconclusive(fmt.Sprintf("scenario %d: publish %q not acknowledged: %v", s, topic, err))
			return
		}
		sentList = append(sentList, sent{topic, tag})
	}
	// publishes with the RETAIN flag and a zero-length payload (they clear a retained slot AND are
	// messages like any other): recognised by their topic, one per topic
	emptyOn := map[string]bool{}
	for _, m := range sentList {
		if len(emptyOn) < 3 && !emptyOn[m.topic] && rg.Intn(4) == 0 {
			emptyOn[m.topic] = true
		}
	}
	for topic := range emptyOn {
		acked, err := pub.Publish(topic, nil, 1, true, kit.DefaultWait)
		if !acked {
			c.Inconclusive(fmt.Sprintf("scenario %d: publish %q not acknowledged: %v", s, topic, err))
			return
		}
		sentList = append(sentList, sent{topic, ""})
		c.Observe("e2e_retained_empty_publishes", 1)
	}
	if acked, err := pub.Publish("zz/sentinel", []byte("END"), 1, false, kit.DefaultWait); !acked {
		c.Inconclusive(fmt.Sprintf("scenario %d: sentinel not acknowledged: %v", s, err))
		return
	}
	matches, nonmatches := 0, 0
	for i, su := range subs {
		_, _, err := su.cl.WaitFor(0, 60*time.Second, func(e kit.Event) bool { return e.Pkt.Type == kit.PUBLISH && e.Pkt.Topic == "zz/sentinel" })
		if err != nil {
			if su.cl.Closed() {
				c.Violation("e2e:subscriber-dropped", fmt.Sprintf("scenario %d: subscriber %d (history %v) was disconnected by the broker", s, i, su.hist), map[string]interface{}{"scenario": s, "history": su.hist})
			} else {
				c.Inconclusive(fmt.Sprintf("scenario %d: subscriber %d never received the sentinel (%v)", s, i, err))
			}
			return
		}
		got := map[string]int{}
		for _, p := range su.cl.Publishes() {
			if p.Topic == "zz/sentinel" {
				continue
			}
			got[p.Topic+"\x00"+string(p.Payload)]++
		}
		active := []string{}
		for f := range su.active {
			active = append(active, f)
		}
		sort.Strings(active)
		for _, m := range sentList {
			want := len(c01Want(active, m.topic))
			g := got[m.topic+"\x00"+m.tag]
			delete(got, m.topic+"\x00"+m.tag)
			if want > 0 {
				matches++
			} else {
				nonmatches++
			}
			if g != want {
				f := ""
				if len(active) > 0 {
					f = active[0]
				}
				kind := "missing"
				if g > want {
					kind = "extra"
				}
				c.Violation("e2e:"+kind+":"+strings.SplitN(c01Class(f, m.topic, nil, nil), ":", 2)[1],
					fmt.Sprintf("scenario %d: session with active filters %q (history %v) received %d copies of the publish on %q, want %d", s, active, su.hist, g, m.topic, want),
					map[string]interface{}{"scenario": s, "active": active, "history": su.hist, "topic": m.topic, "tag": m.tag, "received": g, "expected": want})
			}
		}
		for k, v := range got {
			c.Violation("e2e:unsolicited", fmt.Sprintf("scenario %d: session with filters %q received %d unexpected message(s) %q", s, active, v, k), map[string]interface{}{"scenario": s, "active": active, "message": k})
		}
		c.Case(fmt.Sprintf("e2e|%d|%d|%v", s, i, su.hist), matches > 0 && nonmatches > 0)
	}
	c.Observe("e2e_deliveries_compared", matches+nonmatches)
	c.Observe("e2e_expected_matches", matches)
	if s < 2 {
		c.Sample(map[string]interface{}{"part": "e2e", "scenario": s, "subscriber0_history": subs[0].hist, "publishes": len(sentList)})
	}
}
