package checks

import (
	"fmt"
	"time"

	"github.com/vx-labs/mqtt-protocol/packet"
	"github.com/vx-labs/wasp/v4/wasp/distributed"

	"wv/fw"
	"wv/kit"
	"wv/model"
)

// C10 — a full-state exchange brings a lagging node up to date.

func init() {
	fw.Register("C10", fw.Spec{Run: runC10})
}

func runC10(c *fw.Ctx) {
	c.Rule = "seeded pairs of node histories: two nodes issue 10-50 real mutator calls (incl. bulk removals) while each gossip broadcast between them is delivered or lost forever with a per-scenario loss rate (0..100%); then LocalState/MergeRemoteState is exercised A->B, B->A, both ways and into a fresh node (in a fifth of the scenarios nine clock hours after the last change; with the join flag set in half of them; in a third of them a snapshot was already taken half-way through the history). A per-node reference LWW map (tombstones included) is maintained from the broadcast entries each node issued or received; after A->B the listing of B must equal the visible part of merge(ref(A), ref(B)); a fresh node must list exactly what A lists; after both directions A and B list the same. Plus retained-message histories under clocks that advance only every 2-4 calls (the two nodes' clocks never coincide), partly lost gossip, exchange in both directions: both nodes list the same. distinct = (scenario calls, loss pattern, exchange kind); non-trivial = the sender holds >=2 entries of one kind or a removal the receiver never saw"
	c.Assume("a node's own entries are taken from the broadcasts it queued (C09 establishes that they describe its local changes)")
	c.Assume("timestamps distinct per key (scenarios with an exact tie on a key are counted and skipped)")
	n := c.Pick(6000, 60000)
	for s := 0; s < n; s++ {
		rg := c.SubRng("c10", s)
		off := int64(0)
		if s%3 == 1 {
			off = 5000000000
		}
		w := newCrdtWorld(rg, []int64{0, off})
		refs := []*model.LWW{model.NewLWW(), model.NewLWW()}
		lossPct := []int{0, 30, 60, 100}[rg.Intn(4)]
		steps := 10 + rg.Intn(41)
		lost, unseenRemoval := 0, false
		for i := 0; i < steps; i++ {
			if i == steps/2 && s%3 == 0 {
				// an earlier exchange took a snapshot of both nodes; what they hand out later must be current
				w.nodes[0].S.Distributor().LocalState(false)
				w.nodes[1].S.Distributor().LocalState(false)
			}
			nb := len(w.all)
			w.step(true)
			for k := nb; k < len(w.all); k++ {
				from := w.allFrom[k]
				ev, err := kit.DecodeEvent(w.all[k])
				if err != nil {
					c.Violation("broadcast-undecodable", err.Error(), nil)
					continue
				}
				refs[from].ApplyEvent(ev)
				if rg.Intn(100) < lossPct {
					lost++
					for _, x := range ev.Subscriptions {
						if x.LastDeleted > x.LastAdded {
							unseenRemoval = true
						}
					}
					for _, x := range ev.SessionMetadatas {
						if x.LastDeleted > x.LastAdded {
							unseenRemoval = true
						}
					}
					for _, x := range ev.RetainedMessages {
						if x.LastDeleted > x.LastAdded {
							unseenRemoval = true
						}
					}
					continue
				}
				w.nodes[1-from].Deliver(w.all[k])
				refs[1-from].ApplyEvent(ev)
			}
			w.pending = [][][]byte{nil, nil}
		}
		if refs[0].Ties+refs[1].Ties > 0 {
			c.Observe("scenarios_without_verdict_timestamp_tie", 1)
			continue
		}
		// sanity: each node lists the visible part of its own reference
		bad := false
		for i := 0; i < 2; i++ {
			if got, want := w.nodes[i].Canon().String(), refCanon(refs[i]).String(); got != want {
				c.Violation("pre-exchange-state", fmt.Sprintf("scenario %d: before any exchange node %d lists %s but the entries it issued/received give %s", s, i+1, got, want),
					map[string]interface{}{"scenario": s, "calls": w.trace, "observed": got, "expected": want})
				bad = true
			}
		}
		if bad {
			continue
		}
		nontrivial := unseenRemoval || len(refs[0].Subs) >= 2 || len(refs[0].Sessions) >= 2 || len(refs[0].Topics) >= 2
		kind := s % 4
		a, b := 0, 1
		if kind == 1 {
			a, b = 1, 0
		}
		kindName := []string{"A->B", "B->A", "both", "A->fresh"}[kind]
		if s%5 == 2 {
			// the exchange happens long after the last change (a partition that lasted nine hours)
			w.tick += int64(9 * time.Hour)
			kindName += " (9 h later)"
			c.Observe("exchanges_after_nine_hours", 1)
		}
		// the exchange is the periodic one or the one that accompanies a (re-)join: both carry everything
		join := s%2 == 1
		snap := w.nodes[a].S.Distributor().LocalState(join)
		c.Observe("snapshot_bytes", len(snap))
		switch kind {
		case 0, 1:
			w.nodes[b].S.Distributor().MergeRemoteState(snap, join)
			exp := refs[b].Clone()
			exp.Merge(refs[a])
			if exp.Ties > 0 {
				c.Observe("scenarios_without_verdict_timestamp_tie", 1)
				continue
			}
			if got, want := w.nodes[b].Canon().String(), refCanon(exp).String(); got != want {
				c.Violation("merge-incomplete", fmt.Sprintf("scenario %d (%s, %d%% gossip lost): after merging the snapshot the receiver lists %s; LWW merge of both nodes' entries gives %s", s, kindName, lossPct, got, want),
					map[string]interface{}{"scenario": s, "exchange": kindName, "lost_broadcasts": lost, "calls": w.trace, "observed": got, "expected": want})
			}
		case 2:
			snapB := w.nodes[b].S.Distributor().LocalState(join)
			w.nodes[b].S.Distributor().MergeRemoteState(snap, join)
			w.nodes[a].S.Distributor().MergeRemoteState(snapB, join)
			exp := refs[b].Clone()
			exp.Merge(refs[a])
			if exp.Ties > 0 {
				c.Observe("scenarios_without_verdict_timestamp_tie", 1)
				continue
			}
			ga, gb, want := w.nodes[a].Canon().String(), w.nodes[b].Canon().String(), refCanon(exp).String()
			if ga != gb {
				c.Violation("exchange-diverges", fmt.Sprintf("scenario %d: after exchanging snapshots in both directions node 1 lists %s and node 2 lists %s", s, ga, gb),
					map[string]interface{}{"scenario": s, "lost_broadcasts": lost, "calls": w.trace, "node1": ga, "node2": gb, "expected": want})
			} else if ga != want {
				c.Violation("exchange-wrong", fmt.Sprintf("scenario %d: after exchanging snapshots both nodes list %s; LWW merge gives %s", s, ga, want),
					map[string]interface{}{"scenario": s, "lost_broadcasts": lost, "calls": w.trace, "observed": ga, "expected": want})
			}
		case 3:
			fresh := kit.NewReplica(9)
			fresh.S.Distributor().MergeRemoteState(snap, join)
			if got, want := fresh.Canon().String(), w.nodes[a].Canon().String(); got != want {
				c.Violation("fresh-node-differs", fmt.Sprintf("scenario %d: a fresh node that merged the snapshot lists %s; the sender lists %s", s, got, want),
					map[string]interface{}{"scenario": s, "calls": w.trace, "observed": got, "expected": want})
			}
		}
		c.Case(fmt.Sprintf("%d|%s|%d|%v", s, kindName, lossPct, w.trace), nontrivial)
		c.Observe("exchanges_"+kindName, 1)
		if unseenRemoval {
			c.Observe("scenarios_with_removal_never_gossiped", 1)
		}
		if s < 4 {
			c.Sample(map[string]interface{}{"scenario": s, "exchange": kindName, "gossip_loss_pct": lossPct, "calls": tailStrings(w.trace, 10)})
		}
	}
	c.Floor("scenarios_with_removal_never_gossiped", 20)
	c10Stalled(c)
}

// c10Stalled: retained-message writes on two nodes whose clocks advance only every 2-4 calls
// (coarse clocks), gossip partly lost, then a full-state exchange in both directions: both
// nodes must list the same retained messages. The two clocks never produce the same value
// (even / odd), so equal stamps on one key can only come from one node's own successive writes.
func c10Stalled(c *fw.Ctx) {
	n := c.Pick(3000, 40000)
	for s := 0; s < n; s++ {
		rg := c.SubRng("c10/stall", s)
		var t, calls int64
		stall := int64(2 + rg.Intn(3))
		active := 0
		distributed.VerifSetClock(func() int64 {
			calls++
			if calls%stall == 0 {
				t++
			}
			return c08Base + 2*t + int64(active)
		})
		nodes := []*kit.Replica{kit.NewReplica(1), kit.NewReplica(2)}
		ref := model.NewLWW()
		issued := map[string]int{} // topic|stamp -> origin+1
		crossTie := false
		lossPct := []int{0, 50, 100}[rg.Intn(3)]
		trace := []string{}
		steps := 4 + rg.Intn(12)
		for i := 0; i < steps; i++ {
			active = rg.Intn(2)
			if rg.Intn(4) == 0 {
				active = 0
			}
			topic := []string{"mp/t", "mp/t/u"}[rg.Intn(2)]
			if rg.Intn(4) > 0 {
				v := fmt.Sprintf("v%d", i)
				nodes[active].S.Topics().Set(&packet.Publish{Header: &packet.Header{Retain: true}, Topic: []byte(topic), Payload: []byte(v)})
				trace = append(trace, fmt.Sprintf("n%d.topics.Set(%s=%s)", active+1, topic, v))
			} else {
				nodes[active].S.Topics().Delete([]byte(topic))
				trace = append(trace, fmt.Sprintf("n%d.topics.Delete(%s)", active+1, topic))
			}
			for _, b := range nodes[active].Drain() {
				ev, err := kit.DecodeEvent(b)
				if err != nil {
					continue
				}
				for _, m := range ev.RetainedMessages {
					st := m.LastAdded
					if m.LastDeleted > st {
						st = m.LastDeleted
					}
					k := fmt.Sprintf("%s|%d", m.Publish.Topic, st)
					if o, ok := issued[k]; ok && o != active+1 {
						crossTie = true
					}
					issued[k] = active + 1
				}
				ref.ApplyEvent(ev)
				if rg.Intn(100) < lossPct {
					trace = append(trace, "(broadcast lost)")
					continue
				}
				nodes[1-active].Deliver(b)
			}
		}
		if crossTie {
			c.Observe("scenarios_without_verdict_timestamp_tie", 1)
			continue
		}
		snapA, snapB := nodes[0].S.Distributor().LocalState(false), nodes[1].S.Distributor().LocalState(false)
		nodes[1].S.Distributor().MergeRemoteState(snapA, false)
		nodes[0].S.Distributor().MergeRemoteState(snapB, false)
		ga, gb := nodes[0].Canon().String(), nodes[1].Canon().String()
		c.Case(fmt.Sprintf("stalled|%d|%d|%v", stall, lossPct, trace), true)
		c.Observe("exchanges_stalled_clock", 1)
		if ga != gb {
			c.Violation("exchange-diverges", fmt.Sprintf("stalled-clock scenario %d (clock advances every %d calls, %d%% gossip lost): after exchanging snapshots in both directions node 1 lists %s and node 2 lists %s", s, stall, lossPct, ga, gb),
				map[string]interface{}{"scenario": s, "calls": trace, "node1": ga, "node2": gb})
		} else if want := refCanon(ref).String(); ref.Ties == 0 && ga != want {
			c.Violation("exchange-wrong", fmt.Sprintf("stalled-clock scenario %d: after exchanging snapshots both nodes list %s; LWW merge gives %s", s, ga, want),
				map[string]interface{}{"scenario": s, "calls": trace, "observed": ga, "expected": want})
		}
		if s < 1 {
			c.Sample(map[string]interface{}{"part": "stalled clock", "clock_advances_every_n_calls": stall, "gossip_loss_pct": lossPct, "calls": trace})
		}
	}
	var tick int64
	distributed.VerifSetClock(func() int64 { tick++; return c08Base + tick })
}
