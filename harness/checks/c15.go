package checks

import (
	"bufio"
	"context"
	"fmt"
	"os"
	"os/exec"
	"path/filepath"
	"strconv"
	"strings"
	"sync"
	"syscall"
	"time"

	"github.com/vx-labs/commitlog"
	"github.com/vx-labs/mqtt-protocol/packet"
	"github.com/vx-labs/wasp/v4/wasp"
	"github.com/vx-labs/wasp/v4/wasp/messages"
	"go.uber.org/zap"

	"wv/fw"
	"wv/kit"
)

// C15 — message-log consumption survives crashes without skipping messages.
//
// Parent/child: every incarnation is a separate process (wv aux c15 ...) that
// opens the real messages.Log on a persistent directory and runs the real
// wasp.SchedulePublishes with a recording Writer; hook H5 lets it SIGKILL
// itself at an exact point of Consume.

func init() {
	fw.Register("C15", fw.Spec{Run: runC15})
	fw.Aux["c15"] = c15Child
}

// ---- child -------------------------------------------------------------------------

func c15Logf(f *os.File, format string, a ...interface{}) {
	f.WriteString(fmt.Sprintf(format, a...) + "\n") // one write(2) per line, survives SIGKILL
}

// c15Sched implements the part of wasp.Writer that SchedulePublishes uses.
type c15Sched struct {
	log     messages.Log
	out     *os.File
	onHand  func(offset uint64)
	killIn  int64
	stallAt int64
}

func (w *c15Sched) Schedule(ctx context.Context, offset uint64) {
	if w.stallAt >= 0 && int64(offset) == w.stallAt {
		// like the real writer with a full queue: block, but give up if the caller's context ends
		c15Logf(w.out, "W stall %d", offset)
		select {
		case <-time.After(900 * time.Millisecond):
		case <-ctx.Done():
			c15Logf(w.out, "W gave-up %d", offset)
			return
		}
	}
	if w.killIn >= 0 && int64(offset) == w.killIn {
		// die inside the callback, before the hand-over is recorded
		c15Logf(w.out, "K inCallback %d", offset)
		syscall.Kill(os.Getpid(), syscall.SIGKILL)
		time.Sleep(time.Hour)
	}
	payload := "?"
	if p, err := w.log.Get(offset); err == nil && p != nil {
		payload = string(p.Payload)
		if payload == "" {
			payload = "<empty>"
		}
	} else if err != nil {
		payload = "GETERR:" + err.Error()
	}
	c15Logf(w.out, "S %d %s", offset, payload)
	if w.onHand != nil {
		w.onHand(offset)
	}
}

// c15Child: args = dir out appendBefore appendDuring killPoint killOffset stopAfter final
func c15Child(args []string) int {
	if len(args) < 8 {
		fmt.Fprintln(os.Stderr, "c15 child: bad args")
		return 2
	}
	dir, outPath := args[0], args[1]
	appendBefore, _ := strconv.Atoi(args[2])
	appendDuring, _ := strconv.Atoi(args[3])
	killPoint := args[4]
	killOffset, _ := strconv.ParseInt(args[5], 10, 64)
	stopAfter, _ := strconv.Atoi(args[6])
	final := args[7] == "1"
	allHanded := len(args) > 8 && args[8] == "1"
	out, err := os.OpenFile(outPath, os.O_CREATE|os.O_WRONLY|os.O_APPEND, 0644)
	if err != nil {
		fmt.Fprintln(os.Stderr, err)
		return 2
	}
	logDir := filepath.Join(dir, "log")
	var end uint64
	if _, err := os.Stat(logDir); err == nil {
		cl, err := commitlog.Open(logDir, 500)
		if err != nil {
			c15Logf(out, "X open-for-offset: %v", err)
			return 3
		}
		end = cl.Offset()
		cl.Close()
	}
	log, err := messages.New(dir)
	if err != nil {
		c15Logf(out, "X messages.New: %v", err)
		return 3
	}
	for i := 0; i < appendBefore; i++ {
		seq := end + uint64(i)
		if err := log.Append(&packet.Publish{Header: &packet.Header{}, Topic: []byte("c15/t"), Payload: c15Payload(uint64(seq))}); err != nil {
			c15Logf(out, "X append: %v", err)
			return 3
		}
		c15Logf(out, "A %d", seq)
	}
	total := end + uint64(appendBefore) + uint64(appendDuring)
	ctx, cancel := context.WithCancel(wasp.StoreLogger(context.Background(), zap.NewNop()))
	handed := 0
	sched := &c15Sched{log: log, out: out, killIn: -1, stallAt: -1}
	if killPoint == "stall" {
		sched.stallAt = killOffset
	}
	if killPoint == "inCallback" {
		sched.killIn = killOffset
	}
	messages.VerifSetPoint(func(name string, offset uint64) {
		short := strings.TrimPrefix(name, "consume.")
		if short == "afterCallback" {
			c15Logf(out, "E %d", offset)
		}
		if short == "afterPersist" {
			c15Logf(out, "P %d", offset)
		}
		if short == killPoint && int64(offset) == killOffset {
			c15Logf(out, "K %s %d", short, offset)
			syscall.Kill(os.Getpid(), syscall.SIGKILL)
			time.Sleep(time.Hour)
		}
		if short == "afterTruncate" {
			handed++
			if stopAfter > 0 && handed >= stopAfter {
				c15Logf(out, "G stop-after %d", handed)
				cancel()
			}
			if offset+1 >= total {
				// everything appended has been handed over (final run, or a kill point that was not on the way)
				c15Logf(out, "G end-of-log %d", offset)
				cancel()
			}
		}
	})
	appenderDone := make(chan struct{})
	if appendDuring == 0 {
		close(appenderDone)
	} else {
		go func() {
			defer close(appenderDone)
			for i := 0; i < appendDuring; i++ {
				seq := end + uint64(appendBefore) + uint64(i)
				if err := log.Append(&packet.Publish{Header: &packet.Header{}, Topic: []byte("c15/t"), Payload: c15Payload(uint64(seq))}); err != nil {
					c15Logf(out, "X append: %v", err)
					return
				}
				c15Logf(out, "A %d", seq)
				if i%7 == 0 {
					time.Sleep(time.Millisecond)
				}
			}
		}()
	}
	c15Logf(out, "C consuming end=%d total=%d", end, total)
	_ = final
	if (allHanded || total == 0) && appendBefore+appendDuring == 0 {
		// nothing is left to hand over: watch for spurious replays for a moment, then stop
		go func() {
			time.Sleep(300 * time.Millisecond)
			c15Logf(out, "G nothing-left")
			cancel()
		}()
	}
	done := make(chan struct{})
	go func() {
		wasp.SchedulePublishes(1, wasp.VerifRecordingWriter(sched.Schedule), log)(ctx)
		close(done)
	}()
	select {
	case <-done:
	case <-time.After(120 * time.Second):
		c15Logf(out, "X timeout")
		return 4
	}
	// the concurrent appender finishes its (bounded) work before the log is closed
	select {
	case <-appenderDone:
	case <-time.After(60 * time.Second):
	}
	log.Close()
	c15Logf(out, "Z clean-exit")
	return 0
}

// ---- parent ------------------------------------------------------------------------

type c15Round struct {
	appendBefore, appendDuring int
	killPoint                  string
	killOffset                 int64
	stopAfter                  int
	final                      bool
}

func (r c15Round) String() string {
	switch {
	case r.final:
		return fmt.Sprintf("final(+%d)", r.appendBefore)
	case r.killPoint != "":
		return fmt.Sprintf("kill@%s(%d)(+%d,+%d concurrently)", r.killPoint, r.killOffset, r.appendBefore, r.appendDuring)
	default:
		return fmt.Sprintf("stop-after-%d(+%d,+%d concurrently)", r.stopAfter, r.appendBefore, r.appendDuring)
	}
}

// c15Payload is the payload of the message appended at offset o; every tenth message has a
// zero-length payload (MQTT allows it; it is a message like any other).
func c15Payload(o uint64) []byte {
	if o%10 == 7 {
		return nil
	}
	return []byte(fmt.Sprintf("m%d", o))
}

type c15Run struct {
	handed   []uint64          // S offsets in order
	payload  map[uint64]string // offset -> payload seen
	ended    map[uint64]bool   // E offsets
	killed   string
	clean    bool
	graceful bool
	errs     []string
	appended []uint64
}

func c15Parse(path string) c15Run {
	r := c15Run{payload: map[uint64]string{}, ended: map[uint64]bool{}}
	f, err := os.Open(path)
	if err != nil {
		return r
	}
	defer f.Close()
	sc := bufio.NewScanner(f)
	for sc.Scan() {
		fs := strings.Fields(sc.Text())
		if len(fs) == 0 {
			continue
		}
		switch fs[0] {
		case "S":
			o, _ := strconv.ParseUint(fs[1], 10, 64)
			r.handed = append(r.handed, o)
			if len(fs) > 2 {
				r.payload[o] = fs[2]
			}
		case "E":
			o, _ := strconv.ParseUint(fs[1], 10, 64)
			r.ended[o] = true
		case "A":
			o, _ := strconv.ParseUint(fs[1], 10, 64)
			r.appended = append(r.appended, o)
		case "K":
			r.killed = strings.Join(fs[1:], " ")
		case "G":
			r.graceful = true
		case "Z":
			r.clean = true
		case "X":
			r.errs = append(r.errs, sc.Text())
		}
	}
	return r
}

func c15Scenario(c *fw.Ctx, idx int, rounds []c15Round) {
	base := kit.WorkDir("c15")
	defer os.RemoveAll(base)
	dir := filepath.Join(base, "data")
	os.MkdirAll(dir, 0755)
	desc := fmt.Sprint(rounds)
	fw.LogCase("C15 scenario %d %s", idx, desc)
	runs := []c15Run{}
	wit := func(extra map[string]interface{}) map[string]interface{} {
		out := map[string]interface{}{"scenario": idx, "rounds": desc}
		for k, v := range extra {
			out[k] = v
		}
		return out
	}
	var lastEnded int64 = -1  // c: greatest offset whose callback returned in an earlier run
	var lastHanded int64 = -1 // greatest offset handed in an earlier run
	prevGraceful := false
	everHanded := map[uint64]bool{}
	everPayload := map[uint64]string{}
	totalAppended := uint64(0)
	for ri, r := range rounds {
		out := filepath.Join(base, fmt.Sprintf("run-%d.log", ri))
		fin := "0"
		if r.final {
			fin = "1"
		}
		allHanded := "1"
		for o := uint64(0); o < totalAppended; o++ {
			if !everHanded[o] {
				allHanded = "0"
			}
		}
		if totalAppended == 0 {
			allHanded = "0"
		}
		cmd := exec.Command(os.Args[0], "aux", "c15", dir, out, strconv.Itoa(r.appendBefore), strconv.Itoa(r.appendDuring), r.killPoint, strconv.FormatInt(r.killOffset, 10), strconv.Itoa(r.stopAfter), fin, allHanded)
		cmd.Env = append(os.Environ(), "GOTRACEBACK=all")
		errf, _ := os.Create(out + ".stderr")
		cmd.Stdout, cmd.Stderr = errf, errf
		werr := cmd.Run()
		errf.Close()
		run := c15Parse(out)
		runs = append(runs, run)
		c.Observe("incarnations", 1)
		killed := false
		if ee, ok := werr.(*exec.ExitError); ok {
			if ws, ok := ee.Sys().(syscall.WaitStatus); ok && ws.Signaled() && ws.Signal() == syscall.SIGKILL {
				killed = true
			}
		}
		if len(run.errs) > 0 || (werr != nil && !killed) {
			stderr, _ := os.ReadFile(out + ".stderr")
			if strings.Contains(string(stderr), "panic:") || strings.Contains(string(stderr), "fatal error:") {
				c.Violation("consumer-crashed", fmt.Sprintf("scenario %d %s: incarnation %d crashed: %s", idx, desc, ri, fw.Short(string(stderr), 600)), wit(map[string]interface{}{"run": ri, "stderr": fw.Short(string(stderr), 4000)}))
			} else {
				c.Inconclusive(fmt.Sprintf("scenario %d: incarnation %d failed: %v %v", idx, ri, werr, run.errs))
			}
			return
		}
		if killed {
			c.Observe("kills_at_"+strings.Fields(run.killed + " ?")[0], 1)
			c.ObserveDistinct("crash_points", run.killed)
		} else if r.killPoint == "stall" {
			c.Observe("scheduler_stalls", 1)
		} else if r.killPoint != "" {
			c.Observe("kill_points_not_reached", 1)
		}
		totalAppended += uint64(len(run.appended))
		// --- per-run verdicts
		for i := 1; i < len(run.handed); i++ {
			if run.handed[i] != run.handed[i-1]+1 {
				c.Violation("not-contiguous", fmt.Sprintf("scenario %d %s: incarnation %d handed offset %d right after %d", idx, desc, ri, run.handed[i], run.handed[i-1]), wit(map[string]interface{}{"run": ri}))
				return
			}
		}
		for o, p := range run.payload {
			want := string(c15Payload(o))
			if want == "" {
				want = "<empty>"
			}
			if p != want {
				c.Violation("wrong-payload", fmt.Sprintf("scenario %d %s: incarnation %d handed offset %d with payload %q, the message appended there is %q", idx, desc, ri, o, p, want), wit(map[string]interface{}{"run": ri}))
				return
			}
			everPayload[o] = p
		}
		if len(run.handed) > 0 {
			first := int64(run.handed[0])
			c.Observe("restarts_checked", 1)
			switch {
			case first > lastEnded+1:
				c.Violation("skipped", fmt.Sprintf("scenario %d %s: incarnation %d starts at offset %d but the last message whose hand-over completed is %d: offsets %d..%d were never handed over", idx, desc, ri, first, lastEnded, lastEnded+1, first-1),
					wit(map[string]interface{}{"run": ri, "first": first, "last_completed": lastEnded}))
				return
			case first < lastEnded:
				c.Violation("replayed-more-than-in-flight", fmt.Sprintf("scenario %d %s: incarnation %d starts again at offset %d although hand-over had completed up to %d (previous run %s)", idx, desc, ri, first, lastEnded, map[bool]string{true: "stopped cleanly", false: "was killed"}[prevGraceful]),
					wit(map[string]interface{}{"run": ri, "first": first, "last_completed": lastEnded, "previous_clean": prevGraceful}))
				return
			case first == lastEnded && prevGraceful && lastEnded >= 0:
				c.Violation("replayed-after-clean-stop", fmt.Sprintf("scenario %d %s: the previous incarnation stopped cleanly after completing offset %d (nothing was being processed), yet incarnation %d hands offset %d over again", idx, desc, lastEnded, ri, first),
					wit(map[string]interface{}{"run": ri, "first": first, "last_completed": lastEnded}))
				return
			}
		}
		for _, o := range run.handed {
			everHanded[o] = true
			if int64(o) > lastHanded {
				lastHanded = int64(o)
			}
		}
		for o := range run.ended {
			if int64(o) > lastEnded {
				lastEnded = int64(o)
			}
		}
		prevGraceful = run.clean && !killed
	}
	// every appended offset handed at least once
	missing := []uint64{}
	for o := uint64(0); o < totalAppended; o++ {
		if !everHanded[o] {
			missing = append(missing, o)
		}
	}
	c.Observe("offsets_appended", int(totalAppended))
	if len(missing) > 0 {
		c.Violation("never-handed", fmt.Sprintf("scenario %d %s: %d appended message(s) were never handed to the scheduler, first offset %d", idx, desc, len(missing), missing[0]), wit(map[string]interface{}{"missing_first": missing[0], "missing_count": len(missing)}))
		return
	}
	c.Case(desc, len(rounds) > 1)
	if idx < 3 {
		c.Sample(map[string]interface{}{"scenario": idx, "rounds": desc, "appended": totalAppended})
	}
}

func runC15(c *fw.Ctx) {
	c.Level = "fault_enumeration"
	c.Rule = "each scenario = a log of 30 / 520 / 2100 / 3100 / 5600 uniquely numbered messages (every tenth with a zero-length payload) consumed by a chain of separate processes on one data directory; every incarnation but the last is ended either by SIGKILL at an exact point of Consume (hook H5: before the callback, after it, after persisting the offset, after the truncation check; plus inside the callback, from the recording writer) for a chosen offset - all four points x offsets around batch edges (9,10,11,20), segment rolls (499-501, 999-1001) and the truncation at 2000 (1999-2001) - or by context cancellation after N hand-overs, some with appends before/concurrently with consumption; the last incarnation runs to the end; one chain reads 5600 records in a single run; several restart a fully caught-up consumer with nothing new appended (nothing may be handed over again). Per-incarnation logs (written with one write(2) per line) give: offsets handed over, payload read at that offset, callback-returned marks. Oracle: within a run offsets are contiguous and carry the payload appended there; a run starts at c+1 (c = greatest offset whose hand-over completed earlier) or at c if the previous incarnation was killed (the message in flight), never earlier, never later; over all runs every appended offset is handed over. distinct = (log length, chain of end points); non-trivial = >=1 restart"
	c.Assume("appends concurrent with consumption are only used in incarnations that end by cancellation, so that SIGKILL never interrupts the commit-log library in the middle of a write (that would test the library, not wasp)")
	points := []string{"beforeCallback", "afterCallback", "afterPersist", "afterTruncate"}
	allPoints := append([]string{"inCallback"}, points...)
	scen := [][]c15Round{}
	// small log: every point x several offsets, chains of 3 kills
	for pi, p := range points {
		for _, offs := range [][]int64{{0, 9, 10}, {1, 10, 11}, {5, 19, 20}, {9, 20, 29}} {
			rs := []c15Round{{appendBefore: 30, killPoint: p, killOffset: offs[0]}}
			rs = append(rs, c15Round{killPoint: points[(pi+1)%4], killOffset: offs[1]})
			rs = append(rs, c15Round{killPoint: p, killOffset: offs[2]})
			rs = append(rs, c15Round{final: true})
			scen = append(scen, rs)
		}
	}
	// death inside the callback (the recording writer kills the process before noting the hand-over)
	for _, o := range []int64{0, 9, 10, 15} {
		scen = append(scen, []c15Round{{appendBefore: 30, killPoint: "inCallback", killOffset: o}, {killPoint: "inCallback", killOffset: o + 10}, {killPoint: "afterCallback", killOffset: o + 12}, {final: true}})
	}
	scen = append(scen, []c15Round{{appendBefore: 520, killPoint: "inCallback", killOffset: 500}, {killPoint: "inCallback", killOffset: 500}, {final: true}})
	// a consumer started on an empty log and stopped cleanly before the first message exists
	scen = append(scen, []c15Round{{}, {appendBefore: 3, stopAfter: 2}, {}, {appendBefore: 2, final: true}})
	scen = append(scen, []c15Round{{}, {}, {appendBefore: 12, killPoint: "afterCallback", killOffset: 0}, {final: true}})
	// the scheduler stalls for 0.9 s at one offset (a writer whose queue is full): the consumer must wait
	// for it, not move on
	scen = append(scen, []c15Round{{appendBefore: 40, killPoint: "stall", killOffset: 12}, {final: true}})
	scen = append(scen, []c15Round{{appendBefore: 25, killPoint: "stall", killOffset: 20, stopAfter: 23}, {appendBefore: 5, final: true}})
	// graceful stops and appends between/concurrently
	scen = append(scen, []c15Round{{appendBefore: 12, stopAfter: 5}, {appendBefore: 10, stopAfter: 7}, {appendDuring: 25, stopAfter: 20}, {final: true}})
	scen = append(scen, []c15Round{{appendBefore: 1, stopAfter: 1}, {appendBefore: 1, stopAfter: 1}, {appendBefore: 3, killPoint: "afterCallback", killOffset: 3}, {final: true}})
	scen = append(scen, []c15Round{{appendBefore: 25, stopAfter: 10}, {killPoint: "beforeCallback", killOffset: 10}, {killPoint: "beforeCallback", killOffset: 10}, {final: true}})
	// segment roll
	for pi, p := range points {
		scen = append(scen, []c15Round{{appendBefore: 520, killPoint: p, killOffset: 499 + int64(pi%3)}, {killPoint: points[(pi+2)%4], killOffset: 500 + int64(pi%2)}, {appendBefore: 40, stopAfter: 15}, {final: true}})
	}
	// truncation
	for pi, p := range points {
		if c.Quick() && pi%2 == 1 {
			continue
		}
		scen = append(scen, []c15Round{{appendBefore: 2100, killPoint: p, killOffset: 999 + int64(pi%3)}, {killPoint: p, killOffset: 1999 + int64(pi%3)}, {killPoint: points[(pi+1)%4], killOffset: 2000}, {appendBefore: 30, stopAfter: 50}, {final: true}})
	}
	// a consumer far behind the head of the log when it crosses the truncation points
	scen = append(scen, []c15Round{{appendBefore: 3100, killPoint: "afterPersist", killOffset: 2000}, {killPoint: "beforeCallback", killOffset: 3000}, {final: true}})
	// one uninterrupted run over a long log (more records than any read-ahead or batch limit of the consumer),
	// then a restart at its very end with nothing new appended (must hand over nothing again)
	scen = append(scen, []c15Round{{appendBefore: 30, stopAfter: 10}, {appendBefore: 5600, final: true}})
	scen = append(scen, []c15Round{{appendBefore: 5600, stopAfter: 5600}, {}, {appendBefore: 7, final: true}})
	// restart of a fully caught-up, idle consumer: once right after the hand-over of the last record, once more
	// with nothing in between
	scen = append(scen, []c15Round{{appendBefore: 40, stopAfter: 40}, {}, {}, {appendBefore: 2, final: true}})
	scen = append(scen, []c15Round{{appendBefore: 700, stopAfter: 700}, {}, {final: true}})
	if !c.Quick() {
		rg := c.SubRng("c15", 0)
		for i := 0; i < 220; i++ {
			L := []int{30, 520, 1100, 2100, 3100}[rg.Intn(5)]
			rs := []c15Round{}
			pos := int64(0)
			nr := 3 + rg.Intn(6)
			for k := 0; k < nr; k++ {
				ab := 0
				if k == 0 {
					ab = L
				} else if rg.Intn(3) == 0 {
					ab = rg.Intn(40)
				}
				pos += int64(rg.Intn(L/nr + 1))
				if rg.Intn(4) == 0 {
					rs = append(rs, c15Round{appendBefore: ab, appendDuring: rg.Intn(30), stopAfter: 1 + rg.Intn(L/nr+1)})
				} else {
					// bias towards edges
					o := pos
					if rg.Intn(2) == 0 {
						edges := []int64{9, 10, 11, 499, 500, 501, 999, 1000, 1001, 1499, 1500, 1999, 2000, 2001, 2999, 3000}
						o = edges[rg.Intn(len(edges))]
					}
					rs = append(rs, c15Round{appendBefore: ab, killPoint: allPoints[rg.Intn(5)], killOffset: o})
				}
			}
			rs = append(rs, c15Round{final: true})
			scen = append(scen, rs)
		}
	}
	sem := make(chan struct{}, 8)
	var wg sync.WaitGroup
	for i, rs := range scen {
		wg.Add(1)
		sem <- struct{}{}
		go func(i int, rs []c15Round) {
			defer wg.Done()
			defer func() { <-sem }()
			c15Scenario(c, i, rs)
		}(i, rs)
	}
	wg.Wait()
	for _, p := range allPoints {
		c.Floor("kills_at_"+p, 3)
	}
	c.Floor("restarts_checked", 40)
}
