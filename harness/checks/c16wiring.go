package checks

import (
	"bufio"
	"bytes"
	"context"
	"encoding/json"
	"fmt"
	"os"
	"os/exec"
	"path/filepath"
	"strconv"
	"strings"
	"time"

	"github.com/vx-labs/wasp/v4/wasp/auth"

	"wv/fw"
	"wv/kit"
)

// Wiring part of C16: the command-line configuration is turned into an authentication handler by
// getAuthHandler in package main (cmd/wasp/auth.go, an anchor of the property). Package main cannot
// be imported, so a driver test (harness/overlay/cmdwasp_auth_test.go.txt) is injected into it with
// `go test -overlay`; /repo itself is not touched. The driver prints one line per candidate, the
// verdicts are drawn here.
type c16WireCase struct {
	Settings   map[string]string `json:"settings"`
	Candidates [][2]string       `json:"candidates"`
	// expectation, not sent to the driver
	static     bool
	table      []c16Entry
	staticUser string
	staticPass string
}

func c16Wiring(c *fw.Ctx) {
	dir := kit.WorkDir("c16w")
	defer os.RemoveAll(dir)
	rg := c.SubRng("c16/wiring", 0)
	cases := []*c16WireCase{}
	mkTable := func(k int) []c16Entry {
		perm := rg.Perm(len(c16Users))[:k]
		t := []c16Entry{}
		for _, ui := range perm {
			e := c16Entry{User: c16Users[ui], Pass: c16Pass(c16Users[ui]), Fields: 2 + rg.Intn(2)}
			if e.Fields == 3 && rg.Intn(3) > 0 {
				e.Mount = "tenant-" + e.User[:1]
			}
			t = append(t, e)
		}
		return t
	}
	writeTable := func(name string, t []c16Entry) string {
		lines := []string{}
		for _, e := range t {
			lines = append(lines, e.line())
		}
		p := filepath.Join(dir, name)
		os.WriteFile(p, []byte(strings.Join(lines, "\n")+"\n"), 0600)
		return p
	}
	n := c.Pick(8, 40)
	for i := 0; i < n; i++ {
		table := mkTable(2 + rg.Intn(4))
		path := writeTable(fmt.Sprintf("cred-%d.csv", i), table)
		// the settings of BOTH stores are always present (flags have defaults); the provider decides
		su, sp := fmt.Sprintf("static-user-%d", i), fmt.Sprintf("static-pass-%d", i)
		if i%4 == 3 {
			su, sp = table[0].User, "other-"+table[0].Pass // a name that also exists in the file, with another password
		}
		cs := &c16WireCase{static: i%2 == 0, table: table, staticUser: su, staticPass: sp, Settings: map[string]string{
			"authentication-provider":                 map[bool]string{true: "static", false: "file"}[i%2 == 0],
			"authentication-provider-static-username": su,
			"authentication-provider-static-password": sp,
			"authentication-provider-file-path":       path,
		}}
		cs.Candidates = [][2]string{{su, sp}, {sp, su}, {su, ""}, {"", sp}, {"", ""}, {su, sp + "x"}, {"nobody", sp}}
		for _, e := range table {
			cs.Candidates = append(cs.Candidates, [2]string{e.User, e.Pass}, [2]string{e.User, e.Pass + "x"}, [2]string{e.User, sp}, [2]string{su, e.Pass}, [2]string{"zed", e.Pass})
		}
		cases = append(cases, cs)
	}
	spec := filepath.Join(dir, "spec.json")
	buf, _ := json.Marshal(cases)
	os.WriteFile(spec, buf, 0600)
	root := os.Getenv("VERIF_ROOT")
	if root == "" {
		root = "/verif"
	}
	repo := os.Getenv("VERIF_REPO")
	if repo == "" {
		repo = "/repo"
	}
	overlay := filepath.Join(dir, "overlay.json")
	ob, _ := json.Marshal(map[string]interface{}{"Replace": map[string]string{
		filepath.Join(repo, "cmd/wasp/zz_verif_auth_test.go"): filepath.Join(root, "harness/overlay/cmdwasp_auth_test.go.txt")}})
	os.WriteFile(overlay, ob, 0600)
	ctx, cancel := context.WithTimeout(context.Background(), 20*time.Minute)
	defer cancel()
	cmd := exec.CommandContext(ctx, "go", "test", "-overlay", overlay, "-v", "-vet=off", "-count=1", "-run", "^TestVerifAuthWiring$", "./cmd/wasp")
	cmd.Dir = repo
	cmd.Env = append(os.Environ(), "GOFLAGS=-mod=mod", "GOPROXY=off", "GOSUMDB=off", "GOTOOLCHAIN=local", "VERIF_AUTH_SPEC="+spec)
	var out bytes.Buffer
	cmd.Stdout, cmd.Stderr = &out, &out
	err := cmd.Run()
	text := out.String()
	if !strings.Contains(text, "VERIF-AUTH done") {
		if strings.Contains(text, "panic:") || strings.Contains(text, "VERIF-AUTH") {
			c.Violation("wiring:driver-died", "the configuration-to-handler driver in cmd/wasp died before finishing: "+fw.Short(text, 600), map[string]interface{}{"output": fw.Short(text, 3000)})
		} else {
			c.Inconclusive(fmt.Sprintf("cmd/wasp wiring driver could not be built or run (%v): %s", err, fw.Short(text, 400)))
		}
		return
	}
	seen := map[string]bool{}
	sc := bufio.NewScanner(strings.NewReader(text))
	for sc.Scan() {
		fs := strings.Fields(sc.Text())
		if len(fs) < 3 || fs[0] != "VERIF-AUTH" || fs[1] == "done" {
			continue
		}
		i, _ := strconv.Atoi(fs[1])
		if i >= len(cases) {
			continue
		}
		cs := cases[i]
		desc := fmt.Sprintf("provider=%s static=(%s,%s) file table %v", cs.Settings["authentication-provider"], cs.staticUser, cs.staticPass, cs.table)
		if fs[2] == "handler-error" {
			c.Violation("wiring:handler-construction", fmt.Sprintf("%s: getAuthHandler failed: %s", desc, strings.Join(fs[3:], " ")), nil)
			seen[fmt.Sprint(i)] = true
			continue
		}
		j, _ := strconv.Atoi(fs[2])
		if j >= len(cs.Candidates) || len(fs) < 4 {
			continue
		}
		seen[fmt.Sprintf("%d/%d", i, j)] = true
		cd := cs.Candidates[j]
		want, wantMount := false, auth.DefaultMountPoint
		if cs.static {
			want = cd[0] == cs.staticUser && cd[1] == cs.staticPass
		} else {
			for _, e := range cs.table {
				if e.User == cd[0] && e.Pass == cd[1] {
					want, wantMount = true, e.wantMount()
				}
			}
		}
		c.Observe("wiring_candidates_checked", 1)
		c.Case(fmt.Sprintf("wiring|%s|%v", desc, cd), true)
		switch fs[3] {
		case "panic":
			c.Violation("wiring:authenticate-panic", fmt.Sprintf("%s: Authenticate(%q,%q) panicked: %s", desc, cd[0], cd[1], strings.Join(fs[4:], " ")), nil)
		case "accepted":
			if !want {
				c.Violation("wiring:invalid-accepted", fmt.Sprintf("broker configured with %s: credentials (%q,%q) were accepted", desc, cd[0], cd[1]), map[string]interface{}{"settings": cs.Settings, "candidate": cd})
			} else {
				c.Observe("wiring_accepted", 1)
				if m, _ := strconv.Unquote(fs[4]); m != wantMount {
					c.Violation("wiring:wrong-mountpoint", fmt.Sprintf("broker configured with %s: (%q,%q) admitted into %q, want %q", desc, cd[0], cd[1], m, wantMount), nil)
				}
			}
		case "refused":
			if want {
				c.Violation("wiring:valid-rejected", fmt.Sprintf("broker configured with %s: the configured credentials (%q,%q) were refused", desc, cd[0], cd[1]), map[string]interface{}{"settings": cs.Settings, "candidate": cd})
			} else {
				c.Observe("wiring_refused", 1)
			}
		}
	}
	for i, cs := range cases {
		if seen[fmt.Sprint(i)] {
			continue
		}
		for j := range cs.Candidates {
			if !seen[fmt.Sprintf("%d/%d", i, j)] {
				c.Inconclusive(fmt.Sprintf("wiring driver printed no result for configuration %d candidate %d", i, j))
				return
			}
		}
	}
	c.Floor("wiring_accepted", 8)
	c.Floor("wiring_refused", 20)
}
