package checks

import (
	"fmt"
	"runtime"
	"sort"
	"strings"
	"sync"
	"sync/atomic"
	"time"

	"github.com/vx-labs/wasp/v4/wasp"

	"wv/fw"
	"wv/kit"
)

// C06 — packet identifiers in flight are unique and never leak.
//
// Oracle: shadow set of outstanding identifiers. The allocator is the real
// one (hook H1 exposes the unexported constructor and the free intervals).

func init() {
	fw.Register("C06", fw.Spec{Run: runC06})
}

type c06Call struct {
	Get bool
	X   int32 // Put argument
}

func (c c06Call) String() string {
	if c.Get {
		return "Get"
	}
	return fmt.Sprintf("Put(%d)", c.X)
}

type c06Fail struct{ class, what string }

// c06Step applies one call to the real pool and the shadow set.
func c06Step(p wasp.VerifMIDPool, min, max int32, out map[int32]bool, call c06Call, checkFree bool) (ret int32, fail *c06Fail) {
	defer func() {
		if r := recover(); r != nil {
			fail = &c06Fail{"panic", fmt.Sprintf("%v panicked: %v", call, r)}
		}
	}()
	width := int(max-min) + 1
	if call.Get {
		r := p.Get()
		ret = r
		full := len(out) == width
		inRange := r >= min && r <= max
		switch {
		case full && inRange:
			return r, &c06Fail{"duplicate-on-exhaustion", fmt.Sprintf("Get returned %d although every identifier of [%d,%d] is outstanding", r, min, max)}
		case !full && !inRange:
			return r, &c06Fail{"false-exhaustion", fmt.Sprintf("Get returned %d (not in [%d,%d]) although only %d of %d identifiers are outstanding", r, min, max, len(out), width)}
		case !full && out[r]:
			return r, &c06Fail{"duplicate", fmt.Sprintf("Get returned %d which is still outstanding", r)}
		}
		if inRange {
			out[r] = true
		}
	} else {
		p.Put(call.X)
		delete(out, call.X)
	}
	if checkFree {
		free := c06FreeSet(wasp.VerifPoolFree(p), min, max)
		if free == nil {
			return ret, &c06Fail{"free-list-malformed", fmt.Sprintf("after %v the free intervals %v are overlapping, unsorted or outside [%d,%d]", call, wasp.VerifPoolFree(p), min, max)}
		}
		for x := min; x <= max; x++ {
			if free[x] == out[x] {
				return ret, &c06Fail{"free-list-mismatch", fmt.Sprintf("after %v: identifier %d outstanding=%v but free-list membership=%v (intervals %v)", call, x, out[x], free[x], wasp.VerifPoolFree(p))}
			}
		}
	}
	return ret, nil
}

// c06FreeSet interprets the (from,to] intervals; nil if malformed.
func c06FreeSet(iv [][2]int32, min, max int32) map[int32]bool {
	free := map[int32]bool{}
	for _, i := range iv {
		if i[0] >= i[1] {
			return nil
		}
		for x := i[0] + 1; x <= i[1]; x++ {
			if x < min || x > max || free[x] {
				return nil
			}
			free[x] = true
		}
	}
	return free
}

func c06OutKey(out map[int32]bool) string {
	ks := []int{}
	for k := range out {
		ks = append(ks, int(k))
	}
	sort.Ints(ks)
	return fmt.Sprint(ks)
}

// c06Replay runs a path on a fresh pool; returns the failure of the last call
// only (earlier ones were reported when their state was first reached).
func c06Replay(min, max int32, path []c06Call) (p wasp.VerifMIDPool, out map[int32]bool, fail *c06Fail) {
	p = wasp.VerifNewMIDPool(min, max)
	out = map[int32]bool{}
	for i, call := range path {
		_, f := c06Step(p, min, max, out, call, true)
		if f != nil {
			if i == len(path)-1 {
				return p, out, f
			}
			return p, out, &c06Fail{"prefix-" + f.class, f.what}
		}
	}
	return p, out, nil
}

func runC06(c *fw.Ctx) {
	c.Rule = "(1) every allocator state reachable for ranges [min,max] of width 1-8 (quick) or 1-11 (thorough), min 0 and 1 is explored breadth-first on the real allocator: from every reached state (free-interval snapshot + outstanding set) every call Get and Put(x), x in [min-1,max+1], is executed; each call is checked against a shadow set (range, freshness, exhaustion iff all outstanding, no panic, free list = complement). (2) seeded histories on the production range 0..65535 and on mid-size ranges driven to exhaustion, with releases of free, unknown and out-of-range identifiers. (3) writer level: 8-identifier pool with a slow acknowledger (exhaustion, session end with deliveries unacknowledged or between PUBREC and PUBCOMP, write failure); fan-out to 2-4 QoS 1 sessions with node-wide uniqueness of unacknowledged identifiers; acknowledgements racing sweeps; deliveries left to the broker's own ticker on nodes started a quarter of a second apart. distinct = (range, state, call) for (1), history hash for (2); non-trivial = a call made with >=1 identifier outstanding"
	c.Assume("exhaustion is reported as a value outside [min,max] (the code uses -1); ranges have min >= 0")
	c.Assume("hook H1 exposes the unexported allocator and its free intervals, read as half-open (from,to] ranges as in wasp/idpool.go")

	maxWidth := c.Pick(8, 11)
	type rng struct{ min, max int32 }
	ranges := []rng{}
	for w := 1; w <= maxWidth; w++ {
		ranges = append(ranges, rng{0, int32(w - 1)}, rng{1, int32(w)})
	}
	states, transitions := 0, 0
	var lastPath atomic.Value // of string: the call sequence being replayed
	lastPath.Store("")
	if !c.Guard("pool-exploration", time.Duration(c.Pick(60, 300))*time.Second, func() string { return lastPath.Load().(string) }, func() {
		for _, r := range ranges {
			calls := []c06Call{{Get: true}}
			for x := r.min - 1; x <= r.max+1; x++ {
				calls = append(calls, c06Call{X: x})
			}
			type node struct{ path []c06Call }
			seen := map[string]bool{}
			p0 := wasp.VerifNewMIDPool(r.min, r.max)
			seen[fmt.Sprint(wasp.VerifPoolFree(p0))+"|[]"] = true
			frontier := []node{{nil}}
			failedClasses := map[string]bool{}
			for len(frontier) > 0 && len(seen) < 200000 {
				next := []node{}
				for _, n := range frontier {
					for _, call := range calls {
						path := append(append([]c06Call{}, n.path...), call)
						lastPath.Store(fmt.Sprintf("range [%d,%d], calls %v", r.min, r.max, path))
						p, out, f := c06Replay(r.min, r.max, path)
						transitions++
						c.Case(fmt.Sprintf("%d-%d|%v", r.min, r.max, path), len(out) > 0 || len(n.path) > 0)
						if f != nil {
							if strings.HasPrefix(f.class, "prefix-") {
								continue
							}
							if !failedClasses[f.class] {
								failedClasses[f.class] = true
								c.Violation("pool:"+f.class, fmt.Sprintf("range [%d,%d], calls %v: %s", r.min, r.max, path, f.what),
									map[string]interface{}{"min": r.min, "max": r.max, "calls": fmt.Sprint(path), "observed": f.what})
							}
							continue // do not explore beyond a violating state
						}
						key := fmt.Sprint(wasp.VerifPoolFree(p)) + "|" + c06OutKey(out)
						if !seen[key] {
							seen[key] = true
							next = append(next, node{path})
							c.ObserveDistinct("allocator_states", fmt.Sprintf("%d-%d|%s", r.min, r.max, key))
						}
					}
				}
				frontier = next
			}
			states += len(seen)
			if r.max-r.min == 2 {
				c.Sample(map[string]interface{}{"range": fmt.Sprintf("[%d,%d]", r.min, r.max), "states": len(seen), "calls_per_state": fmt.Sprint(calls)})
			}
		}
	}) {
		return // the allocator blocked: nothing below can be trusted to return
	}
	c.Observe("bfs_states", states)
	c.Observe("bfs_transitions", transitions)
	c.Floor("bfs_states", 50)
	c.Exhaustive(false)
	c.Extra("exhaustive_part", fmt.Sprintf("all reachable states for widths 1-%d (min 0 and 1)", maxWidth))

	// seeded histories
	workers := runtime.NumCPU()
	nHist := c.Pick(48, 640)
	var wg sync.WaitGroup
	for w := 0; w < workers; w++ {
		wg.Add(1)
		go func(w int) {
			defer wg.Done()
			for h := w; h < nHist; h += workers {
				rg := c.SubRng("c06", h)
				var min, max int32
				var steps int
				switch h % 4 {
				case 0:
					min, max, steps = 0, 65535, c.Pick(20000, 200000)
				case 1:
					min, max, steps = 1, 65535, c.Pick(20000, 200000)
				case 2:
					min, max, steps = 0, int32(20+rg.Intn(300)), c.Pick(6000, 40000)
				default:
					min, max, steps = 1, int32(6+rg.Intn(40)), c.Pick(3000, 20000)
				}
				p := wasp.VerifNewMIDPool(min, max)
				out := map[int32]bool{}
				outList := []int32{}
				trace := []string{}
				phaseFill := false
				exhaustions := 0
				for s := 0; s < steps; s++ {
					if s%500 == 0 {
						phaseFill = rg.Intn(3) == 0 // phases that drive towards exhaustion
					}
					var call c06Call
					r := rg.Intn(100)
					switch {
					case (phaseFill && r < 85) || (!phaseFill && r < 45):
						call = c06Call{Get: true}
					case r < 92 && len(outList) > 0:
						i := rg.Intn(len(outList))
						call = c06Call{X: outList[i]}
					case r < 96:
						call = c06Call{X: min + int32(rg.Intn(int(max-min)+1))} // maybe free, maybe outstanding
					default:
						call = c06Call{X: []int32{min - 1, max + 1, -5, max + 1000, 70000}[rg.Intn(5)]}
					}
					// full free-list comparison is O(range); do it on small ranges and sparsely on the big one
					checkFree := (max-min) < 400 && s%7 == 0
					ret, f := c06Step(p, min, max, out, call, checkFree)
					if len(trace) < 64 {
						trace = append(trace, call.String())
					} else {
						trace = append(trace[1:], call.String())
					}
					if f != nil {
						c.Violation("pool-seeded:"+f.class, fmt.Sprintf("range [%d,%d], history %d step %d: %s", min, max, h, s, f.what),
							map[string]interface{}{"min": min, "max": max, "history": h, "step": s, "last_calls": trace, "observed": f.what})
						break
					}
					if call.Get {
						if ret >= min && ret <= max {
							outList = append(outList, ret)
						} else {
							exhaustions++
						}
					} else {
						// rebuild outList lazily: remove X if present
						for i, v := range outList {
							if v == call.X {
								outList[i] = outList[len(outList)-1]
								outList = outList[:len(outList)-1]
								break
							}
						}
					}
				}
				c.Case(fmt.Sprintf("seeded|%d|%d-%d", h, min, max), true)
				c.Observe("seeded_calls", steps)
				c.Observe("seeded_exhaustions_observed", exhaustions)
				if h < 2 {
					c.Sample(map[string]interface{}{"range": fmt.Sprintf("[%d,%d]", min, max), "calls": steps, "tail": tailStrings(trace, 8)})
				}
			}
		}(w)
	}
	wg.Wait()
	// concurrent Get/Put from 12 goroutines with a shadow set under the harness's lock (the same
	// workload C20 runs under the race detector): duplicates and panics show without it, too
	for r := 0; r < c.Pick(6, 40); r++ {
		c20Pool(c, 500+r)
	}
	// acknowledgements racing expiry sweeps: an identifier is released by exactly one of the two
	var storms sync.WaitGroup
	for i := 0; i < c.Pick(3, 12); i++ {
		storms.Add(1)
		go func(i int) { defer storms.Done(); c03AckStorm(c, 600+i) }(i)
	}
	for i := 0; i < c.Pick(4, 8); i++ {
		storms.Add(1)
		go func(i int) { defer storms.Done(); c06TickerLeak(c, i) }(i)
	}
	c06Writer(c)
	c06FanOut(c)
	storms.Wait()
	for r := 0; r < c.Pick(4, 30); r++ {
		c06WriteFailure(c, r)
	}
}

// c06WriteFailure: the broker's write to subscriber A fails while A's session is still registered
// (hook-free fault injection at the transport interface). The identifier of that delivery stays
// allocated: it must not be handed to a delivery for subscriber B, neither at once nor after A's
// session has been removed and its in-flight entry expired.
func c06WriteFailure(c *fw.Ctx, r int) {
	fw.LogCase("C06 write-failure scenario %d", r)
	cl := kit.NewCluster(kit.WorkDir("c06f"))
	defer cl.Close()
	n, err := cl.AddNode(kit.NodeOpts{ID: 1, PoolMin: 1, PoolMax: 8})
	if err != nil {
		c.Inconclusive("cannot start node: " + err.Error())
		return
	}
	qos := 1 + r%2
	a, fa := n.DialFaulty("A")
	defer a.Close()
	if code, err := a.Connect(kit.ConnectOpts{ClientID: "A", KeepAlive: 600, Clean: true}); err != nil || code != 0 {
		c.Inconclusive("connect A failed")
		return
	}
	a.SetAutoAck(false)
	b, err := n.MustConnect(kit.ConnectOpts{ClientID: "B", KeepAlive: 600, Clean: true})
	if err != nil {
		c.Inconclusive("connect: " + err.Error())
		return
	}
	defer b.Close()
	b.SetAutoAck(false)
	pub, err := n.MustConnect(kit.ConnectOpts{ClientID: "pub", KeepAlive: 600, Clean: true})
	if err != nil {
		c.Inconclusive("connect: " + err.Error())
		return
	}
	defer pub.Close()
	if a.Sub1("c06f/a", qos) != nil || b.Sub1("c06f/b", qos) != nil {
		c.Inconclusive("subscribe failed")
		return
	}
	waitB := func(tag string) (int, bool) {
		ev, _, err := b.WaitFor(0, 20*time.Second, func(e kit.Event) bool { return e.Pkt.Type == kit.PUBLISH && string(e.Pkt.Payload) == tag })
		return ev.Pkt.ID, err == nil
	}
	fa.FailWrites(true)
	pub.Publish("c06f/a", []byte("to-A-lost"), 1, false, kit.DefaultWait) // its write to A fails; the exchange stays in flight
	pub.Publish("c06f/b", []byte("to-B-1"), 1, false, kit.DefaultWait)
	id1, ok := waitB("to-B-1")
	if !ok {
		c.Inconclusive("B never received its first message")
		return
	}
	// A's session goes away; its in-flight entry expires; its identifier is released exactly once
	a.Close()
	if !sessionGone(n, "A", 10*time.Second) {
		c.Inconclusive("A's session was not removed")
		return
	}
	far := time.Now().Add(time.Hour)
	n.Ack.Expire(far)
	// B has not acknowledged to-B-1: its identifier is still outstanding
	pub.Publish("c06f/b", []byte("to-B-2"), 1, false, kit.DefaultWait)
	pub.Publish("c06f/b", []byte("to-B-3"), 1, false, kit.DefaultWait)
	id2, ok2 := waitB("to-B-2")
	id3, ok3 := waitB("to-B-3")
	c.Observe("write_failure_scenarios", 1)
	c.Observe("writes_refused_by_fault_injection", int(fa.Failed))
	c.Case(fmt.Sprintf("write-failure|%d", r), true)
	if !ok2 || !ok3 {
		c.Violation("writer:delivery-lost-after-write-failure", fmt.Sprintf("write-failure scenario %d: after a failed write to another session, deliveries to B were dropped (got to-B-2: %v, to-B-3: %v)", r, ok2, ok3), nil)
		return
	}
	if id2 == id1 || id3 == id1 || id2 == id3 {
		c.Violation("writer:identifier-reused-while-outstanding", fmt.Sprintf("write-failure scenario %d (QoS %d): B's unacknowledged deliveries carry identifiers %d, %d, %d - a failed write to another session returned an identifier to the pool while its exchange was still in flight", r, qos, id1, id2, id3),
			map[string]interface{}{"scenario": r, "ids": []int{id1, id2, id3}})
	}
}

// c06Writer: writer level, with a pool of 8 identifiers (hook H1) and a subscriber
// that acknowledges slowly: two unacknowledged deliveries never share an
// identifier, identifiers stay in range, and exhaustion delays or drops
// deliveries instead of duplicating identifiers.
func c06Writer(c *fw.Ctx) {
	rounds := c.Pick(6, 60)
	for r := 0; r < rounds; r++ {
		rg := c.SubRng("c06/writer", r)
		fw.LogCase("C06 writer scenario %d", r)
		cl := kit.NewCluster(kit.WorkDir("c06"))
		func() {
			defer cl.Close()
			n, err := cl.AddNode(kit.NodeOpts{ID: 1, PoolMin: 1, PoolMax: 8})
			if err != nil {
				c.Inconclusive("cannot start node: " + err.Error())
				return
			}
			sub, err := n.MustConnect(kit.ConnectOpts{ClientID: "slow", KeepAlive: 600, Clean: true})
			if err != nil {
				c.Inconclusive("connect: " + err.Error())
				return
			}
			defer sub.Close()
			sub.SetAutoAck(false)
			subQos := 1 + r%2
			if err := sub.Sub1("c06/t", subQos); err != nil {
				c.Inconclusive("subscribe: " + err.Error())
				return
			}
			pub, err := n.MustConnect(kit.ConnectOpts{ClientID: "pub", KeepAlive: 600, Clean: true})
			if err != nil {
				c.Inconclusive("connect: " + err.Error())
				return
			}
			defer pub.Close()
			outstanding := map[int]string{} // id -> tag, as seen by the client
			seenTags := map[string]bool{}
			processed := 0
			scan := func() bool {
				evs := sub.Events()
				for ; processed < len(evs); processed++ {
					p := evs[processed].Pkt
					if p.Type != kit.PUBLISH {
						continue
					}
					tag := string(p.Payload)
					if p.ID < 1 || p.ID > 8 {
						c.Violation("writer:identifier-out-of-range", fmt.Sprintf("writer scenario %d: delivery %s carries identifier %d outside the configured range [1,8]", r, tag, p.ID), nil)
						return false
					}
					if o, busy := outstanding[p.ID]; busy && o != tag {
						c.Violation("writer:identifier-reused-while-outstanding", fmt.Sprintf("writer scenario %d: identifier %d handed to %s while %s is still unacknowledged", r, p.ID, tag, o), map[string]interface{}{"scenario": r, "id": p.ID})
						return false
					}
					outstanding[p.ID] = tag
					seenTags[tag] = true
				}
				return true
			}
			total := 0
			for step := 0; step < 6; step++ {
				k := 3 + rg.Intn(8)
				for i := 0; i < k; i++ {
					total++
					if acked, _ := pub.Publish("c06/t", []byte(fmt.Sprintf("w%d-%d", r, total)), 1, false, kit.DefaultWait); !acked {
						c.Inconclusive("publish not acknowledged")
						return
					}
				}
				// let the writer work through them (exhaustion makes it wait 5 x 100 ms per message)
				time.Sleep(time.Duration(100+rg.Intn(300)) * time.Millisecond)
				if !scan() {
					return
				}
				if len(outstanding) == 8 {
					c.Observe("writer_pool_exhausted_seen", 1)
				}
				// acknowledge a random subset
				for id := range outstanding {
					if rg.Intn(2) == 0 {
						if subQos == 1 {
							sub.Send(kit.EncPubAck(id))
						} else {
							sub.Send(kit.EncPubRec(id))
							sub.Send(kit.EncPubComp(id))
						}
						delete(outstanding, id)
					}
				}
				if ok, _ := sub.Ping(kit.DefaultWait); !ok {
					c.Inconclusive("no PINGRESP from the slow subscriber")
					return
				}
				if !scan() {
					return
				}
			}
			// exhaustion that lasts: nothing is acknowledged for 900 ms while 12 more messages arrive; what
			// cannot get an identifier is dropped, nothing may go out with an identifier outside the range
			for i := 0; i < 12; i++ {
				total++
				pub.Publish("c06/t", []byte(fmt.Sprintf("w%d-%d", r, total)), 1, false, kit.DefaultWait)
			}
			time.Sleep(900 * time.Millisecond)
			if !scan() {
				return
			}
			c.Observe("writer_long_exhaustions", 1)
			// the slow subscriber goes away with deliveries still unacknowledged: after the next
			// expiry sweeps every identifier must be back in the pool
			for i := 0; i < 6; i++ {
				total++
				pub.Publish("c06/t", []byte(fmt.Sprintf("w%d-%d", r, total)), 1, false, kit.DefaultWait)
			}
			time.Sleep(150 * time.Millisecond)
			if subQos == 2 {
				// some deliveries have got their PUBREC (the broker now waits for PUBCOMP) when the subscriber goes
				scan()
				k := 0
				for id := range outstanding {
					if k%2 == 0 {
						sub.Send(kit.EncPubRec(id))
					}
					k++
				}
				sub.Ping(kit.DefaultWait)
				c.Observe("writer_sessions_ended_between_pubrec_and_pubcomp", 1)
			}
			sub.Close()
			if !sessionGone(n, "slow", 10*time.Second) {
				c.Violation("writer:session-not-removed", fmt.Sprintf("writer scenario %d: the closed subscriber is still registered after 10 s", r), nil)
				return
			}
			far := time.Now()
			for i := 0; i < 3; i++ {
				far = far.Add(time.Hour)
				n.Ack.Expire(far)
			}
			free := wasp.VerifPoolFree(wasp.VerifWriterPool(n.Writer))
			if fs := c06FreeSet(free, 1, 8); fs == nil || len(fs) != 8 {
				c.Violation("writer:identifiers-leaked-after-session-end", fmt.Sprintf("writer scenario %d (subscription QoS %d): the only subscriber is gone and three expiry sweeps have run, yet the pool's free intervals are %v instead of the whole range [1,8]", r, subQos, free),
					map[string]interface{}{"scenario": r, "subscription_qos": subQos, "free_intervals": fmt.Sprint(free)})
				return
			}
			c.Observe("writer_session_end_leak_checks", 1)
			c.Case(fmt.Sprintf("writer|%d", r), true)
			c.Observe("writer_deliveries_seen", len(seenTags))
			c.Observe("writer_publishes", total)
		}()
	}
}

// c06FanOut: one publish goes to several QoS 1 sessions of one node at once; each copy gets its
// own identifier from the node-wide pool. Recipients acknowledge in arbitrary order. At no time
// may two unacknowledged deliveries (of any sessions) carry the same identifier, and once
// everything is acknowledged the whole range is free again.
func c06FanOut(c *fw.Ctx) {
	rounds := c.Pick(5, 50)
	for r := 0; r < rounds; r++ {
		rg := c.SubRng("c06/fanout", r)
		fw.LogCase("C06 fan-out scenario %d", r)
		cl := kit.NewCluster(kit.WorkDir("c06f"))
		func() {
			defer cl.Close()
			n, err := cl.AddNode(kit.NodeOpts{ID: 1, PoolMin: 1, PoolMax: 24})
			if err != nil {
				c.Inconclusive("cannot start node: " + err.Error())
				return
			}
			nSubs := 2 + rg.Intn(3)
			subs := []*kit.Client{}
			for i := 0; i < nSubs; i++ {
				sc, err := n.MustConnect(kit.ConnectOpts{ClientID: fmt.Sprintf("fan%d", i), KeepAlive: 600, Clean: true})
				if err != nil {
					c.Inconclusive("connect: " + err.Error())
					return
				}
				defer sc.Close()
				sc.SetAutoAck(false)
				if err := sc.Sub1("c06/f", 1); err != nil {
					c.Inconclusive("subscribe: " + err.Error())
					return
				}
				subs = append(subs, sc)
			}
			pub, err := n.MustConnect(kit.ConnectOpts{ClientID: "pub", KeepAlive: 600, Clean: true})
			if err != nil {
				c.Inconclusive("connect: " + err.Error())
				return
			}
			defer pub.Close()
			type held struct {
				sub int
				tag string
			}
			outstanding := map[int]held{} // identifier -> unacknowledged delivery, node-wide
			ackedByUs := map[string]bool{}
			processed := make([]int, nSubs)
			history := []string{}
			scan := func() bool {
				for si, sc := range subs {
					evs := sc.Events()
					for ; processed[si] < len(evs); processed[si]++ {
						p := evs[processed[si]].Pkt
						if p.Type != kit.PUBLISH {
							continue
						}
						tag := string(p.Payload)
						if p.ID < 1 || p.ID > 24 {
							c.Violation("writer:identifier-out-of-range", fmt.Sprintf("fan-out scenario %d: delivery %s carries identifier %d outside the configured range [1,24]", r, tag, p.ID), nil)
							return false
						}
						if p.Dup && ackedByUs[fmt.Sprintf("%d|%d|%s", si, p.ID, tag)] {
							continue // a retransmission that crossed our acknowledgement
						}
						if o, busy := outstanding[p.ID]; busy && (o.sub != si || o.tag != tag) {
							c.Violation("writer:identifier-reused-while-outstanding", fmt.Sprintf("fan-out scenario %d (%d QoS 1 recipients; %v): identifier %d handed to the delivery of %s to recipient %d while the delivery of %s to recipient %d is still unacknowledged", r, nSubs, history, p.ID, tag, si, o.tag, o.sub),
								map[string]interface{}{"scenario": r, "id": p.ID, "history": history})
							return false
						}
						outstanding[p.ID] = held{si, tag}
						c.Observe("fanout_deliveries_seen", 1)
					}
				}
				return true
			}
			total := 0
			for step := 0; step < 8; step++ {
				k := 1 + rg.Intn(3)
				if len(outstanding)+k*nSubs > 22 {
					k = 0
				}
				for i := 0; i < k; i++ {
					total++
					if acked, _ := pub.Publish("c06/f", []byte(fmt.Sprintf("f%d-%d", r, total)), 1, false, kit.DefaultWait); !acked {
						c.Inconclusive("publish not acknowledged")
						return
					}
					history = append(history, fmt.Sprintf("publish f%d-%d", r, total))
				}
				// every recipient holds its copies (session barrier per recipient after the publisher's PUBACK
				// is not enough: the writer works asynchronously; wait for the expected number of copies)
				want := total
				for si, sc := range subs {
					if !waitCount(func() int {
						k := 0
						for _, p := range sc.Publishes() {
							if !p.Dup {
								k++
							}
						}
						return k
					}, want, 20*time.Second) {
						c.Violation("writer:fan-out-copy-missing", fmt.Sprintf("fan-out scenario %d: recipient %d received fewer than %d first copies", r, si, want), nil)
						return
					}
				}
				if !scan() {
					return
				}
				// acknowledge a random subset, recipients in random order
				ids := []int{}
				for id := range outstanding {
					ids = append(ids, id)
				}
				sort.Ints(ids)
				rg.Shuffle(len(ids), func(i, j int) { ids[i], ids[j] = ids[j], ids[i] })
				for _, id := range ids {
					if rg.Intn(2) == 0 {
						h := outstanding[id]
						subs[h.sub].Send(kit.EncPubAck(id))
						ackedByUs[fmt.Sprintf("%d|%d|%s", h.sub, id, h.tag)] = true
						history = append(history, fmt.Sprintf("recipient %d acks %d (%s)", h.sub, id, h.tag))
						delete(outstanding, id)
					}
				}
				for _, sc := range subs {
					if ok, _ := sc.Ping(kit.DefaultWait); !ok {
						c.Inconclusive("no PINGRESP from a fan-out recipient")
						return
					}
				}
			}
			// acknowledge the rest, then the whole range must be free
			for id, h := range outstanding {
				subs[h.sub].Send(kit.EncPubAck(id))
			}
			for _, sc := range subs {
				if ok, _ := sc.Ping(kit.DefaultWait); !ok {
					c.Inconclusive("no PINGRESP from a fan-out recipient")
					return
				}
			}
			free := wasp.VerifPoolFree(wasp.VerifWriterPool(n.Writer))
			if fs := c06FreeSet(free, 1, 24); fs == nil || len(fs) != 24 {
				c.Violation("writer:identifiers-leaked-after-acknowledgement", fmt.Sprintf("fan-out scenario %d (%d QoS 1 recipients; %v): every delivery has been acknowledged, yet the pool's free intervals are %v instead of the whole range [1,24]", r, nSubs, history, free),
					map[string]interface{}{"scenario": r, "history": history, "free_intervals": fmt.Sprint(free)})
				return
			}
			c.Case(fmt.Sprintf("fanout|%d|%d", r, nSubs), true)
			c.Observe("fanout_scenarios", 1)
		}()
	}
}

// c06TickerLeak: deliveries started at different sub-second phases stay unacknowledged for 4.6 s of
// real time, so that the broker's own one-second sweeps pass their deadlines (no forced sweeps); then
// the subscriber goes away. After forced far-future sweeps the whole identifier range is free.
func c06TickerLeak(c *fw.Ctx, idx int) {
	fw.LogCase("C06 ticker leak %d", idx)
	// the nodes are started a quarter of a second apart: their one-second tickers then sweep at
	// different phases of the second, and so on both sides of the sub-second part of the deadlines
	time.Sleep(time.Duration(idx%4) * 250 * time.Millisecond)
	cl := kit.NewCluster(kit.WorkDir("c06t"))
	defer cl.Close()
	n, err := cl.AddNode(kit.NodeOpts{ID: 1, PoolMin: 1, PoolMax: 12})
	if err != nil {
		c.Inconclusive("cannot start node: " + err.Error())
		return
	}
	subQos := 1 + idx%2
	sub, err := n.MustConnect(kit.ConnectOpts{ClientID: "silent", KeepAlive: 600, Clean: true})
	if err != nil {
		c.Inconclusive("connect: " + err.Error())
		return
	}
	defer sub.Close()
	sub.SetAutoAck(false)
	if err := sub.Sub1("c06/k", subQos); err != nil {
		c.Inconclusive("subscribe: " + err.Error())
		return
	}
	pub, err := n.MustConnect(kit.ConnectOpts{ClientID: "pub", KeepAlive: 600, Clean: true})
	if err != nil {
		c.Inconclusive("connect: " + err.Error())
		return
	}
	defer pub.Close()
	for i := 0; i < 9; i++ {
		if acked, _ := pub.Publish("c06/k", []byte(fmt.Sprintf("k%d-%d", idx, i)), 1, false, kit.DefaultWait); !acked {
			c.Inconclusive("publish not acknowledged")
			return
		}
		time.Sleep(130 * time.Millisecond)
	}
	time.Sleep(4600 * time.Millisecond)
	sub.Close()
	if !sessionGone(n, "silent", 10*time.Second) {
		c.Violation("writer:session-not-removed", fmt.Sprintf("ticker scenario %d: the closed subscriber is still registered after 10 s", idx), nil)
		return
	}
	far := time.Now()
	for i := 0; i < 3; i++ {
		far = far.Add(time.Hour)
		n.Ack.Expire(far)
	}
	free := wasp.VerifPoolFree(wasp.VerifWriterPool(n.Writer))
	c.Observe("writer_session_end_leak_checks", 1)
	c.Case(fmt.Sprintf("ticker-leak|%d", idx), true)
	if fs := c06FreeSet(free, 1, 12); fs == nil || len(fs) != 12 {
		c.Violation("writer:identifiers-leaked-after-session-end", fmt.Sprintf("ticker scenario %d (subscription QoS %d): nine deliveries stayed unacknowledged for 4.6 s under the broker's own one-second sweeps, then the only subscriber went away and three far-future sweeps ran, yet the pool's free intervals are %v instead of the whole range [1,12]", idx, subQos, free),
			map[string]interface{}{"scenario": idx, "subscription_qos": subQos, "free_intervals": fmt.Sprint(free)})
	}
}
