package checks

import (
	"fmt"
	"sort"
	"strings"
	"sync"
	"time"

	"wv/fw"
	"wv/kit"
)

// C11 — sessions end only for cause, and ending one removes every trace of it.

func init() {
	fw.Register("C11", fw.Spec{Run: runC11})
}

// listings returns "node: sessions / subscriptions" of every node, filtered by a client id prefix.
func c11Traces(cl *kit.Cluster, nodes []*kit.Node, clientID string) []string {
	out := []string{}
	for _, n := range nodes {
		sessIDs := map[string]bool{}
		for _, s := range n.State.SessionMetadatas().All() {
			if s.ClientID == clientID {
				out = append(out, fmt.Sprintf("n%d lists session %s (client %s, peer %d)", n.ID, s.SessionID, s.ClientID, s.Peer))
				sessIDs[s.SessionID] = true
			}
		}
		for _, s := range n.Local.ListSessions() {
			if s.ClientID() == clientID {
				out = append(out, fmt.Sprintf("n%d local registry holds session %s", n.ID, s.ID()))
				sessIDs[s.ID()] = true
			}
		}
	}
	return out
}

func c11SubTraces(nodes []*kit.Node, sessionID string) []string {
	out := []string{}
	for _, n := range nodes {
		for _, s := range n.State.Subscriptions().All() {
			if s.SessionID == sessionID {
				out = append(out, fmt.Sprintf("n%d lists subscription (%s, %s)", n.ID, s.SessionID, s.Pattern))
			}
		}
	}
	return out
}

// c11Invariant: every listed subscription belongs to a listed session connected on the node it names.
func c11Invariant(nodes []*kit.Node) []string {
	bad := []string{}
	byID := map[uint64]*kit.Node{}
	for _, n := range nodes {
		byID[n.ID] = n
	}
	for _, n := range nodes {
		listed := map[string]uint64{}
		for _, s := range n.State.SessionMetadatas().All() {
			listed[s.SessionID] = s.Peer
		}
		for _, sub := range n.State.Subscriptions().All() {
			peer, ok := listed[sub.SessionID]
			switch {
			case !ok:
				bad = append(bad, fmt.Sprintf("n%d lists subscription (%s,%s) whose session is not listed", n.ID, sub.SessionID, sub.Pattern))
			case peer != sub.Peer:
				bad = append(bad, fmt.Sprintf("n%d lists subscription (%s,%s) on peer %d but the session is on peer %d", n.ID, sub.SessionID, sub.Pattern, sub.Peer, peer))
			default:
				host := byID[sub.Peer]
				if host != nil && host.Local.Get(sub.SessionID) == nil {
					bad = append(bad, fmt.Sprintf("n%d lists subscription (%s,%s) on peer %d where no such session is connected", n.ID, sub.SessionID, sub.Pattern, sub.Peer))
				}
			}
		}
	}
	sort.Strings(bad)
	return bad
}

func sessionIDOf(n *kit.Node, clientID string) string {
	for _, s := range n.Local.ListSessions() {
		if s.ClientID() == clientID {
			return s.ID()
		}
	}
	return ""
}

// pollGone waits (<= d) until f returns no traces; returns the last traces.
func pollGone(d time.Duration, f func() []string) []string {
	deadline := time.Now().Add(d)
	for {
		t := f()
		if len(t) == 0 || time.Now().After(deadline) {
			return t
		}
		time.Sleep(10 * time.Millisecond)
	}
}

// c11ConnackLost: the connection is lost in the outbound direction between CONNECT and CONNACK
// (the CONNACK cannot be written). The session the broker may already have set up ends for
// cause and must leave nothing behind.
func c11ConnackLost(c *fw.Ctx, idx, nNodes int) {
	fw.LogCase("C11 connack-lost %d nodes=%d", idx, nNodes)
	cl := kit.NewCluster(kit.WorkDir("c11k"))
	defer cl.Close()
	nodes := []*kit.Node{}
	for i := 1; i <= nNodes; i++ {
		n, err := cl.AddNode(kit.NodeOpts{ID: uint64(i)})
		if err != nil {
			c.Inconclusive("cannot start node: " + err.Error())
			return
		}
		nodes = append(nodes, n)
	}
	cl.StartPump(3 * time.Millisecond)
	host := nodes[idx%nNodes]
	clientID := fmt.Sprintf("connack-lost-%d", idx)
	v, fault := host.DialFaulty(clientID)
	defer v.Close()
	fault.FailWrites(true)
	v.Send(kit.EncConnect(kit.ConnectOpts{ClientID: clientID, KeepAlive: 600, Clean: true, Will: idx%2 == 0, WillTopic: "c11/will", WillPayload: []byte("w")}))
	time.Sleep(time.Duration(50+100*(idx%3)) * time.Millisecond)
	v.Close()
	left := pollGone(10*time.Second, func() []string {
		t := []string{}
		for _, n := range nodes {
			for _, m := range n.State.SessionMetadatas().All() {
				if m.ClientID == clientID {
					t = append(t, fmt.Sprintf("n%d still lists session %s (client %s)", n.ID, m.SessionID, m.ClientID))
				}
			}
			for _, s := range n.Local.ListSessions() {
				if s.ClientID() == clientID {
					t = append(t, fmt.Sprintf("n%d local registry still holds %s", n.ID, s.ID()))
				}
			}
		}
		return t
	})
	c.Observe("cleanups_checked", 1)
	c.Observe("connack_lost_scenarios", 1)
	c.Case(fmt.Sprintf("connack-lost|%d|%d", idx, nNodes), true)
	if len(left) > 0 {
		c.Violation("trace-left:session-record:connack-write-fails", fmt.Sprintf("cause=CONNACK cannot be written (connection lost between CONNECT and CONNACK), %d node(s), session on n%d: 10 s after the connection ended: %s", nNodes, host.ID, strings.Join(left, "; ")),
			map[string]interface{}{"scenario": idx, "nodes": nNodes, "left": left})
	}
}

type c11Idle struct {
	k     int     // keep-alive seconds
	frac  float64 // idle fraction of k
	point string  // afterConnect | afterSubscribe | betweenPings
}

func c11NoSpuriousEnd(c *fw.Ctx, idx int, sc c11Idle) {
	fw.LogCase("C11 idle k=%d frac=%.2f at %s", sc.k, sc.frac, sc.point)
	cl := kit.NewCluster(kit.WorkDir("c11i"))
	defer cl.Close()
	n, err := cl.AddNode(kit.NodeOpts{ID: 1})
	if err != nil {
		c.Inconclusive("cannot start node: " + err.Error())
		return
	}
	clientID := fmt.Sprintf("idle-%d", idx)
	cc := n.Dial(clientID)
	defer cc.Close()
	idle := time.Duration(float64(sc.k) * sc.frac * float64(time.Second))
	bound := time.Duration(float64(sc.k) * 0.8 * float64(time.Second))
	desc := fmt.Sprintf("keep-alive %d s, idle %.1f s %s", sc.k, idle.Seconds(), sc.point)
	var lastSend time.Time
	maxGap := time.Duration(0)
	mark := func() {
		now := time.Now()
		if !lastSend.IsZero() && now.Sub(lastSend) > maxGap {
			maxGap = now.Sub(lastSend)
		}
		lastSend = now
	}
	mark()
	code, err := cc.Connect(kit.ConnectOpts{ClientID: clientID, KeepAlive: sc.k, Clean: true})
	if err != nil || code != 0 {
		if cc.Closed() || code > 0 {
			// the broker dropped or refused a client that did nothing but CONNECT with a legal keep-alive
			c.Violation("spurious-end:at-connect", fmt.Sprintf("%s: the CONNECT itself was not accepted (code %d, %v)", desc, code, err), map[string]interface{}{"keepalive_s": sc.k})
			return
		}
		c.Inconclusive(fmt.Sprintf("%s: connect failed: %v code %d", desc, err, code))
		return
	}
	switch sc.point {
	case "afterConnect":
		time.Sleep(idle)
	case "afterSubscribe":
		mark()
		if err := cc.Sub1("c11/idle", 0); err != nil {
			c.Inconclusive(desc + ": subscribe: " + err.Error())
			return
		}
		time.Sleep(idle)
	case "publishesOnly", "subscribesOnly":
		// the client keeps the connection alive with other packets than PINGREQ (any control packet counts
		// [MQTT-3.1.2-23]) for three keep-alive periods
		end := time.Now().Add(time.Duration(3*sc.k) * time.Second)
		for i := 0; time.Now().Before(end); i++ {
			mark()
			if sc.point == "publishesOnly" {
				cc.Send(kit.EncPublish("c11/keepalive", []byte("tick"), 0, false, false, 0))
			} else if err := cc.Sub1(fmt.Sprintf("c11/keepalive/%d", i), 0); err != nil {
				if maxGap <= bound {
					c.Violation("spurious-end:"+sc.point, fmt.Sprintf("%s: the client never exceeded %.1f s between packets (max measured gap %.2f s) but its SUBSCRIBE number %d was not answered (%v)", desc, bound.Seconds(), maxGap.Seconds(), i+1, err),
						map[string]interface{}{"keepalive_s": sc.k, "point": sc.point, "max_gap_s": maxGap.Seconds(), "closed": cc.Closed()})
				}
				return
			}
			time.Sleep(idle)
		}
	case "betweenPings":
		for i := 0; i < 2; i++ {
			mark()
			if ok, err := cc.Ping(kit.DefaultWait); !ok {
				c.Inconclusive(fmt.Sprintf("%s: warm-up ping failed: %v", desc, err))
				return
			}
			time.Sleep(idle)
		}
	}
	mark()
	ok, perr := cc.Ping(kit.DefaultWait)
	c.Case(fmt.Sprintf("idle|%v", sc), true)
	if maxGap > bound {
		// the machine was too slow for this scenario to mean anything
		c.Observe("idle_scenarios_without_verdict_slow_machine", 1)
		return
	}
	c.Observe("idle_scenarios_judged", 1)
	if !ok {
		c.Violation("spurious-end:"+sc.point, fmt.Sprintf("%s: the client never exceeded %.1f s between packets (max measured gap %.2f s) but its PINGREQ was not answered (%v)", desc, bound.Seconds(), maxGap.Seconds(), perr),
			map[string]interface{}{"keepalive_s": sc.k, "idle_s": idle.Seconds(), "point": sc.point, "max_gap_s": maxGap.Seconds(), "closed": cc.Closed()})
		return
	}
	// still served: a publish to its filter arrives
	if sc.point == "afterSubscribe" {
		p, err := n.MustConnect(kit.ConnectOpts{ClientID: clientID + "-pub", KeepAlive: 600, Clean: true})
		if err == nil {
			defer p.Close()
			p.Publish("c11/idle", []byte("still-here"), 1, false, kit.DefaultWait)
			if _, _, err := cc.WaitFor(0, kit.DefaultWait, func(e kit.Event) bool { return e.Pkt.Type == kit.PUBLISH && string(e.Pkt.Payload) == "still-here" }); err != nil {
				c.Violation("spurious-end:no-delivery", fmt.Sprintf("%s: session answers PINGREQ but no longer receives publishes", desc), nil)
			}
		}
	}
}

type c11Cleanup struct {
	cause   string // disconnect | close | silence | second-connect | garbage | displaced-same-node | displaced-other-node | node-failure
	nNodes  int
	host    int // node index hosting the session
	filters []string
	unsub   int // number of filters unsubscribed again before the end
}

func c11CleanupScenario(c *fw.Ctx, idx int, sc c11Cleanup) {
	fw.LogCase("C11 cleanup %d %+v", idx, sc)
	cl := kit.NewCluster(kit.WorkDir("c11c"))
	defer cl.Close()
	nodes := []*kit.Node{}
	for i := 1; i <= sc.nNodes; i++ {
		n, err := cl.AddNode(kit.NodeOpts{ID: uint64(i)})
		if err != nil {
			c.Inconclusive("cannot start node: " + err.Error())
			return
		}
		nodes = append(nodes, n)
	}
	cl.StartPump(3 * time.Millisecond)
	host := nodes[sc.host]
	clientID := fmt.Sprintf("victim-%d", idx)
	desc := fmt.Sprintf("cause=%s, %d node(s), session on n%d, filters %v (%d unsubscribed)", sc.cause, sc.nNodes, sc.host+1, sc.filters, sc.unsub)
	wit := func(extra map[string]interface{}) map[string]interface{} {
		out := map[string]interface{}{"scenario": idx, "cause": sc.cause, "nodes": sc.nNodes, "host": sc.host + 1, "filters": sc.filters, "unsubscribed": sc.unsub}
		for k, v := range extra {
			out[k] = v
		}
		return out
	}
	ka := 600
	if sc.cause == "silence" {
		ka = 1
	}
	var v *kit.Client
	var fault *kit.FaultConn
	var err error
	if sc.cause == "suback-write-fails" {
		v, fault = host.DialFaulty(clientID)
		if code, cerr := v.Connect(kit.ConnectOpts{ClientID: clientID, KeepAlive: ka, Clean: true}); cerr != nil || code != 0 {
			c.Inconclusive(desc + ": connect failed")
			return
		}
	} else {
		v, err = host.MustConnect(kit.ConnectOpts{ClientID: clientID, KeepAlive: ka, Clean: true})
		if err != nil {
			c.Inconclusive(desc + ": connect: " + err.Error())
			return
		}
	}
	defer v.Close()
	for _, f := range sc.filters {
		if err := v.Sub1(f, 0); err != nil {
			c.Inconclusive(desc + ": subscribe: " + err.Error())
			return
		}
	}
	if sc.unsub > 0 {
		if err := v.Unsubscribe(sc.filters[:sc.unsub]); err != nil {
			c.Inconclusive(desc + ": unsubscribe: " + err.Error())
			return
		}
	}
	sessID := sessionIDOf(host, clientID)
	if sessID == "" {
		c.Violation("session-not-registered", desc+": the accepted session is not in its node's registry", wit(nil))
		return
	}
	// a bystander on another (or the same) node, with a witness subscription on the victim's filters
	by := nodes[(sc.host+1)%sc.nNodes]
	w, err := by.MustConnect(kit.ConnectOpts{ClientID: fmt.Sprintf("bystander-%d", idx), KeepAlive: 600, Clean: true})
	if err != nil {
		c.Inconclusive(desc + ": connect: " + err.Error())
		return
	}
	defer w.Close()
	if err := w.Sub1("c11/#", 0); err != nil {
		c.Inconclusive(desc + ": subscribe: " + err.Error())
		return
	}
	// wait until every node lists the victim (gossip) so that the end has something to remove
	if left := pollGone(10*time.Second, func() []string {
		missing := []string{}
		for _, n := range nodes {
			if _, err := n.State.SessionMetadatas().Get(sessID); err != nil {
				missing = append(missing, fmt.Sprintf("n%d does not list the session yet", n.ID))
			}
		}
		return missing
	}); len(left) > 0 {
		c.Inconclusive(desc + ": gossip did not spread the session: " + strings.Join(left, "; "))
		return
	}
	expectEOF := true
	var newer *kit.Client
	survivors := nodes
	switch sc.cause {
	case "disconnect":
		v.Send(kit.EncDisconnect())
	case "close":
		v.Close()
		expectEOF = false
	case "silence":
		// nothing is sent; the broker's allowance is 2 x keep-alive
	case "second-connect":
		v.Send(kit.EncConnect(kit.ConnectOpts{ClientID: clientID, KeepAlive: 600, Clean: true}))
	case "suback-write-fails":
		// the connection breaks in the outbound direction exactly when the broker answers a SUBSCRIBE:
		// the subscriptions of that packet were created, the SUBACK cannot be written, the session ends
		fault.FailWrites(true)
		v.Send(kit.EncSubscribe(99, []string{"c11/late/a", "c11/late/+"}, []int{0, 1}))
		expectEOF = false
		go func() { time.Sleep(300 * time.Millisecond); v.Close() }()
	case "displaced-then-newer-leaves":
		// the client re-connects (same or other node), the NEWER session then leaves cleanly, and only
		// afterwards does the old session reach its next keep-alive exchange: it was displaced and must end
		target := nodes[(sc.host+1)%sc.nNodes]
		newer, err = target.MustConnect(kit.ConnectOpts{ClientID: clientID, KeepAlive: 600, Clean: true})
		if err != nil {
			c.Violation("takeover-refused", fmt.Sprintf("%s: the newer connection was not accepted: %v", desc, err), wit(nil))
			return
		}
		cl.StopPump()
		cl.Quiesce()
		newer.Send(kit.EncDisconnect())
		newer.WaitClosed(10 * time.Second)
		newer.Close()
		newer = nil
		time.Sleep(20 * time.Millisecond)
		cl.Quiesce()
		cl.StartPump(3 * time.Millisecond)
		v.Send(kit.EncPingReq())
	case "displaced-then-old-host-fails":
		// the client re-connects on another node; the old host fails before the old session's next
		// keep-alive exchange, i.e. while it still holds the displaced session and its subscriptions
		target := nodes[(sc.host+1)%sc.nNodes]
		newer, err = target.MustConnect(kit.ConnectOpts{ClientID: clientID, KeepAlive: 600, Clean: true})
		if err != nil {
			c.Violation("takeover-refused", fmt.Sprintf("%s: the newer connection was not accepted: %v", desc, err), wit(nil))
			return
		}
		defer newer.Close()
		cl.StopPump()
		cl.Quiesce()
		cl.FailNode(host)
		survivors = []*kit.Node{}
		for _, n := range nodes {
			if n != host {
				survivors = append(survivors, n)
			}
		}
		cl.StartPump(3 * time.Millisecond)
		expectEOF = false
		time.Sleep(3200 * time.Millisecond)
	case "garbage":
		v.Send([]byte{0xf0, 0x02, 0x00, 0x00}) // reserved packet type 15
	case "displaced-same-node", "displaced-other-node":
		target := host
		if sc.cause == "displaced-other-node" {
			target = nodes[(sc.host+1)%sc.nNodes]
		}
		newer, err = target.MustConnect(kit.ConnectOpts{ClientID: clientID, KeepAlive: 600, Clean: true})
		if err != nil {
			c.Violation("takeover-refused", fmt.Sprintf("%s: the newer connection was not accepted: %v", desc, err), wit(nil))
			return
		}
		defer newer.Close()
		// the gossip of the takeover must reach the old node before its next keep-alive exchange
		newID := sessionIDOf(target, clientID)
		if target == host {
			for _, s := range host.Local.ListSessions() {
				if s.ClientID() == clientID && s.ID() != sessID {
					newID = s.ID()
				}
			}
		}
		pollGone(10*time.Second, func() []string {
			if _, err := host.State.SessionMetadatas().Get(newID); err != nil {
				return []string{"not yet"}
			}
			return nil
		})
		v.Send(kit.EncPingReq()) // the old session's next keep-alive exchange
	case "node-failure":
		cl.StopPump()
		cl.FailNode(host)
		survivors = []*kit.Node{}
		for _, n := range nodes {
			if n != host {
				survivors = append(survivors, n)
			}
		}
		cl.StartPump(3 * time.Millisecond)
		expectEOF = false
		time.Sleep(3200 * time.Millisecond) // the code's own delay before peers drop the failed node's sessions
	}
	// (a) the broker closes the connection
	if expectEOF {
		bound := 15 * time.Second
		if !v.WaitClosed(bound) {
			c.Violation("connection-not-closed:"+sc.cause, fmt.Sprintf("%s: %s after the session ended the client's connection is still open", desc, bound), wit(nil))
		} else {
			c.Observe("connections_closed_by_broker", 1)
		}
	}
	// (b) every trace disappears from every node
	left := pollGone(10*time.Second, func() []string {
		t := []string{}
		for _, n := range survivors {
			if m, err := n.State.SessionMetadatas().Get(sessID); err == nil {
				t = append(t, fmt.Sprintf("n%d still lists session %s (client %s)", n.ID, m.SessionID, m.ClientID))
			}
			if n.Local.Get(sessID) != nil {
				t = append(t, fmt.Sprintf("n%d local registry still holds %s", n.ID, sessID))
			}
		}
		return append(t, c11SubTraces(survivors, sessID)...)
	})
	c.Observe("cleanups_checked", 1)
	if len(left) > 0 {
		kind := "session-record"
		for _, l := range left {
			if strings.Contains(l, "subscription") {
				kind = "subscription"
			}
		}
		c.Violation("trace-left:"+kind+":"+sc.cause, fmt.Sprintf("%s: 10 s after the session ended: %s", desc, strings.Join(left, "; ")), wit(map[string]interface{}{"left": left}))
	}
	// (c) nothing published afterwards is written to it
	cl.StopPump()
	cl.Quiesce()
	cl.StartPump(3 * time.Millisecond)
	before := len(v.Publishes())
	pubNode := survivors[0]
	p, err := pubNode.MustConnect(kit.ConnectOpts{ClientID: fmt.Sprintf("after-%d", idx), KeepAlive: 600, Clean: true})
	if err == nil {
		defer p.Close()
		for i, f := range sc.filters {
			t := strings.NewReplacer("+", "x", "#", "y").Replace(f)
			p.Publish(t, []byte(fmt.Sprintf("after-%d-%d", idx, i)), 1, false, kit.DefaultWait)
		}
		tag := fmt.Sprintf("after-end-%d", idx)
		p.Publish("c11/zz", []byte(tag), 1, false, kit.DefaultWait)
		if _, _, err := w.WaitFor(0, 30*time.Second, func(e kit.Event) bool { return e.Pkt.Type == kit.PUBLISH && string(e.Pkt.Payload) == tag }); err == nil {
			if got := len(v.Publishes()); got > before {
				c.Violation("delivered-after-end:"+sc.cause, fmt.Sprintf("%s: %d publish(es) were written to the ended session", desc, got-before), wit(nil))
			}
		}
	}
	// (d) cross-node invariant at quiescence
	cl.StopPump()
	cl.Quiesce()
	if bad := c11Invariant(survivors); len(bad) > 0 {
		c.Violation("dangling-subscription:"+sc.cause, fmt.Sprintf("%s: at quiescence %s", desc, strings.Join(bad, "; ")), wit(map[string]interface{}{"dangling": bad}))
	}
	if newer != nil {
		if ok, _ := newer.Ping(kit.DefaultWait); !ok {
			c.Violation("newer-session-lost", desc+": the displacing session no longer answers PINGREQ", wit(nil))
		}
	}
	c.Case(fmt.Sprintf("cleanup|%+v", sc), true)
}

func runC11(c *fw.Ctx) {
	c.Rule = "(A) no spurious end: clients with keep-alive 2/5/10 s (and 40000 / 65535 s, idle 0.4-0.65 s) idle for 0.5-0.75 of it right after CONNECT, after SUBSCRIBE or between pings, or keep the connection alive for three keep-alive periods with PUBLISH / SUBSCRIBE packets only, measuring their own send times, then send PINGREQ; verdict only if every measured gap stayed <= 0.8 x keep-alive. (B) cleanup: cause in {DISCONNECT, client closes, silence beyond the allowance, second CONNECT, undecodable packet, displacement on the same / another node followed by the old session's PINGREQ, failure of the hosting node, outbound write failure exactly at a SUBACK or at the CONNACK (fault-injecting connection), displacement followed by the failure of the old host before the old session's next keep-alive exchange} x subscription sets (none, one, several, after unsubscribes) x 1-3 nodes with a running gossip pump; observed: EOF at the client end, SessionMetadatas/Subscriptions listings and local registries of every node (polled <= 10 s), packets at the ended session's pipe after later publishes (witness barrier), and at quiescence the invariant 'every listed subscription belongs to a listed session connected on the node it names'. distinct = scenario parameters; non-trivial = all"
	c.Assume("keep-alive allowance: a client that never lets more than 0.8 x keep-alive pass between packets is within it (MQTT allows 1.5 x)")
	c.Assume("teardown predicates are polled for <= 10 s; there is no code path that makes them true later than the teardown itself")
	var wg sync.WaitGroup
	idles := []c11Idle{
		{2, 0.7, "afterConnect"}, {2, 0.7, "afterSubscribe"}, {2, 0.7, "betweenPings"},
		{5, 0.7, "afterConnect"}, {5, 0.7, "afterSubscribe"}, {5, 0.7, "betweenPings"},
		{10, 0.5, "afterConnect"},
		// keep-alive values near the top of the 16-bit range are legal: the session must simply live
		{40000, 0.00001, "afterConnect"}, {65535, 0.00001, "afterSubscribe"},
	}
	if !c.Quick() {
		idles = append(idles, c11Idle{10, 0.75, "afterSubscribe"}, c11Idle{10, 0.75, "betweenPings"}, c11Idle{7, 0.75, "afterConnect"}, c11Idle{30, 0.5, "afterConnect"}, c11Idle{3, 0.75, "afterConnect"}, c11Idle{4, 0.78, "afterSubscribe"})
	}
	idles = append(idles, c11Idle{2, 0.4, "publishesOnly"}, c11Idle{2, 0.45, "subscribesOnly"})
	for i, sc := range idles {
		wg.Add(1)
		go func(i int, sc c11Idle) { defer wg.Done(); c11NoSpuriousEnd(c, i, sc) }(i, sc)
	}
	causes := []string{"disconnect", "close", "silence", "second-connect", "garbage", "displaced-same-node", "displaced-other-node", "node-failure", "suback-write-fails", "displaced-then-old-host-fails", "displaced-then-newer-leaves"}
	filterSets := [][]string{{}, {"c11/a"}, {"c11/a", "c11/+/b", "c11/#", "c11/c/d"}}
	scen := []c11Cleanup{}
	rg := c.SubRng("c11", 0)
	for _, cause := range causes {
		for fi, fs := range filterSets {
			for nn := 1; nn <= 3; nn++ {
				if (cause == "displaced-other-node" || cause == "node-failure" || cause == "displaced-then-old-host-fails") && nn == 1 {
					continue
				}
				if c.Quick() && (fi+nn)%2 == 0 && cause != "disconnect" {
					continue // quick: half of the grid, all of it for DISCONNECT
				}
				unsub := 0
				if len(fs) > 1 && rg.Intn(2) == 0 {
					unsub = 1 + rg.Intn(len(fs)-1)
				}
				scen = append(scen, c11Cleanup{cause: cause, nNodes: nn, host: rg.Intn(nn), filters: fs, unsub: unsub})
			}
		}
	}
	if !c.Quick() {
		for i := 0; i < 300; i++ {
			cause := causes[rg.Intn(len(causes))]
			nn := 1 + rg.Intn(3)
			if (cause == "displaced-other-node" || cause == "node-failure" || cause == "displaced-then-old-host-fails") && nn == 1 {
				nn = 2
			}
			fs := filterSets[rg.Intn(len(filterSets))]
			unsub := 0
			if len(fs) > 1 {
				unsub = rg.Intn(len(fs))
			}
			scen = append(scen, c11Cleanup{cause: cause, nNodes: nn, host: rg.Intn(nn), filters: fs, unsub: unsub})
		}
	}
	sem := make(chan struct{}, 16)
	for i, sc := range scen {
		wg.Add(1)
		sem <- struct{}{}
		go func(i int, sc c11Cleanup) {
			defer wg.Done()
			defer func() { <-sem }()
			c11CleanupScenario(c, i, sc)
		}(i, sc)
	}
	wg.Wait()
	for i := 0; i < c.Pick(6, 40); i++ {
		c11ConnackLost(c, i, 1+i%3)
	}
	c.Sample(map[string]interface{}{"part": "idle", "scenario": fmt.Sprintf("%+v", idles[3])})
	c.Sample(map[string]interface{}{"part": "cleanup", "scenario": fmt.Sprintf("%+v", scen[len(scen)/2])})
	c.Floor("idle_scenarios_judged", 3)
	c.Floor("cleanups_checked", 20)
}
