package checks

import (
	"fmt"
	"sync"
	"sync/atomic"
	"time"

	"github.com/vx-labs/wasp/v4/wasp"

	"wv/fw"
	"wv/kit"
)

// C03 — unacknowledged QoS 1/2 deliveries are retransmitted until completed.

func init() {
	fw.Register("C03", fw.Spec{Run: runC03})
}

type c03Msg struct {
	tag      string
	sess     int
	qos      int
	id       int  // identifier seen on the first copy
	ackRound int  // round in which the client acknowledges (PUBACK / PUBREC); -1 never
	compOff  int  // QoS 2: rounds after PUBREC until PUBCOMP
	wrongAt  int  // round with a wrong reply (-1 none)
	wrongHow int  // 0 wrong type, 1 unknown id
	shared   bool // one publish on the shared topic, delivered to every session
	// state
	stage       int // 0 awaiting first ack, 1 (QoS 2) awaiting PUBCOMP, 2 completed
	sweepsStage int // forced sweeps since the current stage began
	doneCopies  [2]int
}

func poolHas(n *kit.Node, id int) bool {
	for _, iv := range wasp.VerifPoolFree(wasp.VerifWriterPool(n.Writer)) {
		if int32(id) > iv[0] && int32(id) <= iv[1] {
			return true
		}
	}
	return false
}

func sessionGone(n *kit.Node, clientID string, d time.Duration) bool {
	deadline := time.Now().Add(d)
	for {
		found := false
		for _, s := range n.Local.ListSessions() {
			if s.ClientID() == clientID {
				found = true
			}
		}
		if !found {
			return true
		}
		if time.Now().After(deadline) {
			return false
		}
		time.Sleep(5 * time.Millisecond)
	}
}

func c03Count(cl *kit.Client, typ int, tag string, id int) (n int, ids map[int]bool) {
	ids = map[int]bool{}
	for _, e := range cl.Events() {
		p := e.Pkt
		switch {
		case typ == kit.PUBLISH && p.Type == kit.PUBLISH && string(p.Payload) == tag:
			n++
			ids[p.ID] = true
		case typ == kit.PUBREL && p.Type == kit.PUBREL && p.ID == id:
			n++
		}
	}
	return
}

func c03Scenario(c *fw.Ctx, s int) {
	rg := c.SubRng("c03", s)
	fw.LogCase("C03 scenario %d", s)
	cl := kit.NewCluster(kit.WorkDir("c03"))
	defer cl.Close()
	n, err := cl.AddNode(kit.NodeOpts{ID: 1})
	if err != nil {
		c.Inconclusive("cannot start node: " + err.Error())
		return
	}
	nSess := 1 + rg.Intn(3)
	subs := make([]*kit.Client, nSess)
	subQos := make([]int, nSess)
	dieAt := make([]int, nSess) // round in which the session disconnects (-1 never)
	alive := make([]bool, nSess)
	for i := range subs {
		cc, err := n.MustConnect(kit.ConnectOpts{ClientID: fmt.Sprintf("c03-%d-sub%d", s, i), KeepAlive: 600, Clean: true})
		if err != nil {
			c.Inconclusive("connect: " + err.Error())
			return
		}
		defer cc.Close()
		cc.SetAutoAck(false)
		subQos[i] = 1 + rg.Intn(2)
		if err := cc.Sub1(fmt.Sprintf("c03/s%d", i), subQos[i]); err != nil {
			c.Inconclusive("subscribe: " + err.Error())
			return
		}
		// a topic shared by all sessions: one message, several recipients, each with its own granted QoS
		if err := cc.Sub1("_default/all", subQos[i]); err != nil {
			c.Inconclusive("subscribe: " + err.Error())
			return
		}
		subs[i] = cc
		alive[i] = true
		dieAt[i] = -1
		if rg.Intn(5) == 0 {
			dieAt[i] = rg.Intn(4)
		}
	}
	pub, err := n.MustConnect(kit.ConnectOpts{ClientID: fmt.Sprintf("c03-%d-pub", s), KeepAlive: 600, Clean: true})
	if err != nil {
		c.Inconclusive("connect: " + err.Error())
		return
	}
	defer pub.Close()
	msgs := []*c03Msg{}
	for i := 0; i < nSess; i++ {
		k := 1 + rg.Intn(4)
		for j := 0; j < k; j++ {
			m := &c03Msg{tag: fmt.Sprintf("c03-%d-s%d-m%d", s, i, j), sess: i, qos: subQos[i], ackRound: rg.Intn(5), compOff: rg.Intn(3), wrongAt: -1}
			if m.ackRound == 4 {
				m.ackRound = -1 // never acknowledged within the scenario
			}
			if rg.Intn(3) == 0 {
				m.wrongAt = rg.Intn(4)
				m.wrongHow = rg.Intn(2)
			}
			msgs = append(msgs, m)
		}
	}
	shared := rg.Intn(2) == 0 && nSess > 1
	sharedTag := fmt.Sprintf("c03-%d-shared", s)
	if shared {
		for i := 0; i < nSess; i++ {
			m := &c03Msg{tag: sharedTag, sess: i, qos: subQos[i], ackRound: rg.Intn(5), compOff: rg.Intn(3), wrongAt: -1, shared: true}
			if m.ackRound == 4 {
				m.ackRound = -1
			}
			msgs = append(msgs, m)
		}
	}
	script := []string{}
	for _, m := range msgs {
		script = append(script, fmt.Sprintf("%s q%d ack@%d comp+%d wrong@%d/%d", m.tag, m.qos, m.ackRound, m.compOff, m.wrongAt, m.wrongHow))
	}
	for i := range subs {
		script = append(script, fmt.Sprintf("session %d q%d disconnects@%d", i, subQos[i], dieAt[i]))
	}
	wit := func(extra map[string]interface{}) map[string]interface{} {
		out := map[string]interface{}{"scenario": s, "script": script}
		for k, v := range extra {
			out[k] = v
		}
		return out
	}
	// publish everything (QoS 1 at the publisher; subscription QoS decides the delivery QoS)
	sharedSent := false
	for _, m := range msgs {
		topic := fmt.Sprintf("c03/s%d", m.sess)
		if m.shared {
			if sharedSent {
				continue
			}
			sharedSent = true
			topic = "_default/all" // begins with the mount point's own name
		}
		if acked, err := pub.Publish(topic, []byte(m.tag), 1, false, kit.DefaultWait); !acked {
			c.Inconclusive(fmt.Sprintf("scenario %d: publish not acknowledged: %v", s, err))
			return
		}
	}
	// first copies
	for _, m := range msgs {
		ev, _, err := subs[m.sess].WaitFor(0, 60*time.Second, func(e kit.Event) bool { return e.Pkt.Type == kit.PUBLISH && string(e.Pkt.Payload) == m.tag })
		if err != nil {
			c.Violation("first-copy-missing", fmt.Sprintf("scenario %d: %s was never written to its subscriber: %v", s, m.tag, err), wit(nil))
			return
		}
		m.id = ev.Pkt.ID
		if ev.Pkt.Qos != m.qos || m.id == 0 {
			c.Violation("first-copy-malformed", fmt.Sprintf("scenario %d: first copy of %s has QoS %d id %d (subscription QoS %d)", s, m.tag, ev.Pkt.Qos, m.id, m.qos), wit(nil))
			return
		}
	}
	// identifiers of concurrently outstanding exchanges must differ (node-wide pool)
	seen := map[int]string{}
	for _, m := range msgs {
		if o, dup := seen[m.id]; dup {
			c.Violation("identifier-shared", fmt.Sprintf("scenario %d: %s and %s are in flight with the same packet identifier %d", s, o, m.tag, m.id), wit(nil))
			return
		}
		seen[m.id] = m.tag
	}
	pingAll := func() bool {
		for i, cc := range subs {
			if !alive[i] {
				continue
			}
			if ok, err := cc.Ping(kit.DefaultWait); !ok {
				if cc.Closed() {
					c.Violation("session-dropped", fmt.Sprintf("scenario %d: session %d was disconnected by the broker", s, i), wit(nil))
				} else {
					c.Inconclusive(fmt.Sprintf("scenario %d: no PINGRESP from session %d: %v", s, i, err))
				}
				return false
			}
		}
		return true
	}
	far := time.Now()
	totalSweeps := 0
	rounds := 5
	for r := 0; r < rounds; r++ {
		// 1. wrong replies
		for _, m := range msgs {
			if !alive[m.sess] || m.stage == 2 || m.wrongAt != r {
				continue
			}
			cc := subs[m.sess]
			if m.wrongHow == 1 {
				cc.Send(kit.EncPubAck(m.id + 20000))
				cc.Send(kit.EncPubRec(m.id + 20000))
				cc.Send(kit.EncPubComp(m.id + 20000))
			} else {
				switch {
				case m.qos == 1:
					cc.Send(kit.EncPubRec(m.id))
					cc.Send(kit.EncPubComp(m.id))
				case m.stage == 0:
					cc.Send(kit.EncPubAck(m.id))
					cc.Send(kit.EncPubComp(m.id))
				default:
					cc.Send(kit.EncPubAck(m.id))
					cc.Send(kit.EncPubRec(m.id))
				}
			}
			c.Observe("wrong_replies_sent", 1)
		}
		if !pingAll() {
			return
		}
		// 2. correct replies due this round
		raced := []*c03Msg{}
		for _, m := range msgs {
			if !alive[m.sess] || m.stage == 2 {
				continue
			}
			cc := subs[m.sess]
			switch {
			case m.stage == 0 && m.ackRound == r && m.qos == 1 && s%3 == 0:
				raced = append(raced, m) // acknowledged below, while a sweep runs
			case m.stage == 0 && m.ackRound == r && m.qos == 1:
				cc.Send(kit.EncPubAck(m.id))
				m.stage = 2
			case m.stage == 0 && m.ackRound == r && m.qos == 2:
				from := cc.NumEvents()
				cc.Send(kit.EncPubRec(m.id))
				if _, _, err := cc.WaitFor(from, kit.DefaultWait, func(e kit.Event) bool { return e.Pkt.Type == kit.PUBREL && e.Pkt.ID == m.id }); err != nil {
					c.Violation("pubrel-missing", fmt.Sprintf("scenario %d: no PUBREL after PUBREC for %s (id %d): %v", s, m.tag, m.id, err), wit(nil))
					return
				}
				m.stage, m.sweepsStage = 1, 0
				m.doneCopies[0], _ = c03Count(cc, kit.PUBLISH, m.tag, m.id)
				if m.compOff == 0 {
					cc.Send(kit.EncPubComp(m.id))
					m.stage = 2
				}
			case m.stage == 1 && m.ackRound+m.compOff == r:
				cc.Send(kit.EncPubComp(m.id))
				m.stage = 2
			}
		}
		if !pingAll() {
			return
		}
		if len(raced) > 0 {
			// the PUBACKs of this round arrive while an expiry sweep is under way. Either the acknowledgement
			// wins (identifier released, exchange over) or the sweep does (the retransmitted exchange is still
			// open, identifier still allocated; the client acknowledges again next round) - never both
			var rw sync.WaitGroup
			rw.Add(1)
			far = far.Add(time.Hour)
			sweepAt := far
			stopSweeps := make(chan struct{})
			go func() {
				defer rw.Done()
				for {
					n.Ack.Expire(sweepAt)
					select {
					case <-stopSweeps:
						return
					default:
					}
				}
			}()
			for _, m := range raced {
				subs[m.sess].Send(kit.EncPubAck(m.id))
			}
			close(stopSweeps)
			rw.Wait()
			if !pingAll() {
				return
			}
			for _, m := range raced {
				if poolHas(n, m.id) {
					m.stage = 2
					c.Observe("racing_acks_won", 1)
				} else {
					m.ackRound = r + 1
					c.Observe("racing_acks_lost_to_sweep", 1)
				}
			}
			script = append(script, fmt.Sprintf("round %d: %d PUBACKs sent while a sweep runs", r, len(raced)))
		}
		for _, m := range msgs {
			if m.stage == 2 && alive[m.sess] && m.doneCopies[1] == 0 {
				cc := subs[m.sess]
				m.doneCopies[0], _ = c03Count(cc, kit.PUBLISH, m.tag, m.id)
				m.doneCopies[1], _ = c03Count(cc, kit.PUBREL, m.tag, m.id)
				m.doneCopies[1]++ // marks "recorded"
				if !poolHas(n, m.id) {
					c.Violation("identifier-not-freed", fmt.Sprintf("scenario %d: %s (id %d) was acknowledged but its identifier is not back in the pool", s, m.tag, m.id), wit(map[string]interface{}{"pool": fmt.Sprint(wasp.VerifPoolFree(wasp.VerifWriterPool(n.Writer)))}))
					return
				}
				c.Observe("completions_checked", 1)
			}
		}
		// 3. sessions that end this round
		for i := range subs {
			if alive[i] && dieAt[i] == r {
				alive[i] = false
				if (s+i)%2 == 0 {
					subs[i].Close()
					if !sessionGone(n, fmt.Sprintf("c03-%d-sub%d", s, i), 10*time.Second) {
						c.Violation("session-not-removed", fmt.Sprintf("scenario %d: session %d still registered 10 s after its connection closed", s, i), wit(nil))
						return
					}
				} else {
					// the session ends by displacement: the client connects again (clean session, no subscriptions),
					// the old connection's next keep-alive exchange ends it
					clientID := fmt.Sprintf("c03-%d-sub%d", s, i)
					oldID := sessionIDOf(n, clientID)
					nc, err := n.MustConnect(kit.ConnectOpts{ClientID: clientID, KeepAlive: 600, Clean: true})
					if err != nil {
						c.Inconclusive("takeover connect: " + err.Error())
						return
					}
					defer nc.Close()
					subs[i].Send(kit.EncPingReq())
					subs[i].WaitClosed(10 * time.Second)
					if left := pollGone(10*time.Second, func() []string {
						if n.Local.Get(oldID) != nil {
							return []string{"still registered"}
						}
						return nil
					}); len(left) > 0 {
						c.Violation("session-not-removed", fmt.Sprintf("scenario %d: session %d (displaced by a newer connection of its client, then sent PINGREQ) is still registered 10 s later", s, i), wit(nil))
						return
					}
					script = append(script, fmt.Sprintf("session %d ends by displacement", i))
					c.Observe("sessions_ended_by_displacement", 1)
				}
				c.Observe("sessions_ended", 1)
			}
		}
		// 4. forced sweep: every armed deadline is in the past
		far = far.Add(time.Hour)
		n.Ack.Expire(far)
		totalSweeps++
		c.Observe("forced_sweeps", 1)
		if !pingAll() {
			return
		}
		// 5. verdicts
		for _, m := range msgs {
			if !alive[m.sess] {
				if m.stage != 2 && !poolHas(n, m.id) {
					c.Violation("identifier-not-freed-after-session-end", fmt.Sprintf("scenario %d: session %d ended; after the next sweep the identifier %d of its unfinished delivery %s is still allocated", s, m.sess, m.id, m.tag), wit(map[string]interface{}{"pool": fmt.Sprint(wasp.VerifPoolFree(wasp.VerifWriterPool(n.Writer)))}))
					return
				}
				continue
			}
			cc := subs[m.sess]
			np, ids := c03Count(cc, kit.PUBLISH, m.tag, m.id)
			nr, _ := c03Count(cc, kit.PUBREL, m.tag, m.id)
			for _, e := range cc.Events() {
				if e.Pkt.Type == kit.PUBLISH && string(e.Pkt.Payload) == m.tag && e.Pkt.Qos != m.qos {
					c.Violation("retransmitted-with-other-qos", fmt.Sprintf("scenario %d: a copy of %s written to session %d has QoS %d, the subscription's QoS is %d", s, m.tag, m.sess, e.Pkt.Qos, m.qos), wit(nil))
					return
				}
			}
			if len(ids) > 1 {
				c.Violation("retransmitted-with-new-identifier", fmt.Sprintf("scenario %d: copies of %s carry identifiers %v", s, m.tag, ids), wit(nil))
				return
			}
			if m.stage != 2 && poolHas(n, m.id) {
				c.Violation("identifier-freed-while-in-flight", fmt.Sprintf("scenario %d: %s (id %d) is still awaiting %s, yet its identifier is back in the pool's free list", s, m.tag, m.id, map[int]string{0: "its first acknowledgement", 1: "PUBCOMP"}[m.stage]), wit(map[string]interface{}{"pool": fmt.Sprint(wasp.VerifPoolFree(wasp.VerifWriterPool(n.Writer)))}))
				return
			}
			switch m.stage {
			case 0:
				m.sweepsStage++
				if np < 1+m.sweepsStage {
					c.Violation(fmt.Sprintf("not-retransmitted:qos%d", m.qos), fmt.Sprintf("scenario %d: %s (QoS %d, id %d) unacknowledged through %d forced sweeps but only %d PUBLISH copies were written", s, m.tag, m.qos, m.id, m.sweepsStage, np), wit(map[string]interface{}{"copies": np, "sweeps": m.sweepsStage}))
					return
				}
				c.Observe("retransmissions_seen", np-1)
			case 1:
				m.sweepsStage++
				if nr < 1+m.sweepsStage {
					c.Violation("pubrel-not-retransmitted", fmt.Sprintf("scenario %d: %s (id %d) awaits PUBCOMP through %d forced sweeps but only %d PUBREL were written", s, m.tag, m.id, m.sweepsStage, nr), wit(map[string]interface{}{"pubrels": nr, "sweeps": m.sweepsStage}))
					return
				}
				if np > m.doneCopies[0] {
					c.Violation("publish-after-pubrec", fmt.Sprintf("scenario %d: %s was sent again as PUBLISH after its PUBREC", s, m.tag), wit(nil))
					return
				}
				c.Observe("pubrel_retransmissions_seen", nr-1)
			case 2:
				if np > m.doneCopies[0] || nr > m.doneCopies[1]-1 {
					c.Violation("sent-after-completion", fmt.Sprintf("scenario %d: %s (id %d) completed, yet a later sweep wrote it again (PUBLISH %d->%d, PUBREL %d->%d)", s, m.tag, m.id, m.doneCopies[0], np, m.doneCopies[1]-1, nr), wit(nil))
					return
				}
			}
		}
	}
	c.Case(fmt.Sprint(script), true)
	if s < 2 {
		c.Sample(map[string]interface{}{"scenario": s, "script": script, "forced_sweeps": totalSweeps})
	}
}

// c03RealTime: no forced sweeps. Silent subscribers are watched for 11 s of real time: the broker's
// own 1 s ticker and its 3 s deadlines must retransmit at least twice (deadline passes at ~3 s and
// ~6-7.5 s). The deliveries are started at different sub-second phases so that deadlines fall on both
// sides of the second boundaries the timeout buckets are rounded to.
func c03RealTime(c *fw.Ctx, idx int) {
	fw.LogCase("C03 real-time scenario %d", idx)
	cl := kit.NewCluster(kit.WorkDir("c03rt"))
	defer cl.Close()
	// the broker's sweep ticker starts with the node: start nodes at different phases of the wall-clock
	// second (0.1, 0.3, 0.55, 0.8, ...) so that ticks fall before and after the deadlines' fractions
	target := []int{100, 300, 550, 800}[idx%4] * int(time.Millisecond)
	wait := (target - time.Now().Nanosecond() + int(time.Second)) % int(time.Second)
	time.Sleep(time.Duration(wait))
	n, err := cl.AddNode(kit.NodeOpts{ID: 1})
	if err != nil {
		c.Inconclusive("cannot start node: " + err.Error())
		return
	}
	pub, err := n.MustConnect(kit.ConnectOpts{ClientID: "rt-pub", KeepAlive: 600, Clean: true})
	if err != nil {
		c.Inconclusive("connect: " + err.Error())
		return
	}
	defer pub.Close()
	nS := 10
	subs := make([]*kit.Client, nS)
	start := make([]time.Time, nS)
	for i := range subs {
		cc, err := n.MustConnect(kit.ConnectOpts{ClientID: fmt.Sprintf("rt-sub%d", i), KeepAlive: 600, Clean: true})
		if err != nil {
			c.Inconclusive("connect: " + err.Error())
			return
		}
		defer cc.Close()
		cc.SetAutoAck(false)
		if err := cc.Sub1(fmt.Sprintf("c03rt/%d", i), 1+i%2); err != nil {
			c.Inconclusive("subscribe: " + err.Error())
			return
		}
		subs[i] = cc
	}
	for i := range subs {
		time.Sleep(time.Duration(97+7*idx) * time.Millisecond) // ten deliveries spread over the second: every deadline fraction occurs
		if acked, _ := pub.Publish(fmt.Sprintf("c03rt/%d", i), []byte(fmt.Sprintf("rt-%d-%d", idx, i)), 1, false, kit.DefaultWait); !acked {
			c.Inconclusive("publish not acknowledged")
			return
		}
		start[i] = time.Now()
	}
	for i, cc := range subs {
		tag := fmt.Sprintf("rt-%d-%d", idx, i)
		// wait until 11 s after this delivery started, or until the third copy is there
		deadline := start[i].Add(11 * time.Second)
		copies := 0
		for {
			copies, _ = c03Count(cc, kit.PUBLISH, tag, 0)
			if copies >= 3 || time.Now().After(deadline) {
				break
			}
			time.Sleep(50 * time.Millisecond)
		}
		c.Observe("realtime_deliveries_watched", 1)
		c.Observe("retransmissions_seen", copies-1)
		if cc.Closed() {
			c.Violation("session-dropped", fmt.Sprintf("real-time scenario %d: silent subscriber %d was disconnected", idx, i), nil)
			continue
		}
		if copies < 3 {
			c.Violation(fmt.Sprintf("not-retransmitted-by-ticker:qos%d", 1+i%2), fmt.Sprintf("real-time scenario %d: the unacknowledged QoS %d delivery %s was written %d time(s) in 11 s; with 3 s deadlines and a 1 s sweep at least 3 copies are due", idx, 1+i%2, tag, copies),
				map[string]interface{}{"scenario": idx, "copies": copies, "subscriber": i})
		}
	}
	c.Case(fmt.Sprintf("realtime|%d", idx), true)
}

// c03AckStorm: a subscriber acknowledges 16 QoS 1 deliveries while expiry sweeps run back to back.
// For every delivery either the acknowledgement wins (identifier back in the pool, nothing is ever
// sent again) or a sweep does (identifier still allocated; acknowledged again afterwards).
func c03AckStorm(c *fw.Ctx, idx int) { c03AckStormN(c, idx, c.Pick(16, 80)) }

func c03AckStormN(c *fw.Ctx, idx, rounds int) {
	fw.LogCase("C03 ack storm %d", idx)
	cl := kit.NewCluster(kit.WorkDir("c03s"))
	defer cl.Close()
	n, err := cl.AddNode(kit.NodeOpts{ID: 1})
	if err != nil {
		c.Inconclusive("cannot start node: " + err.Error())
		return
	}
	sub, err := n.MustConnect(kit.ConnectOpts{ClientID: "storm-sub", KeepAlive: 600, Clean: true})
	if err != nil {
		c.Inconclusive("connect: " + err.Error())
		return
	}
	defer sub.Close()
	sub.SetAutoAck(false)
	if err := sub.Sub1("c03/storm", 1); err != nil {
		c.Inconclusive("subscribe: " + err.Error())
		return
	}
	pub, err := n.MustConnect(kit.ConnectOpts{ClientID: "storm-pub", KeepAlive: 600, Clean: true})
	if err != nil {
		c.Inconclusive("connect: " + err.Error())
		return
	}
	defer pub.Close()
	far := time.Now()
	for r := 0; r < rounds; r++ {
		const k = 16
		ids := map[string]int{}
		for i := 0; i < k; i++ {
			tag := fmt.Sprintf("storm-%d-%d-%d", idx, r, i)
			if acked, _ := pub.Publish("c03/storm", []byte(tag), 1, false, kit.DefaultWait); !acked {
				c.Inconclusive("publish not acknowledged")
				return
			}
			ev, _, err := sub.WaitFor(0, 30*time.Second, func(e kit.Event) bool { return e.Pkt.Type == kit.PUBLISH && string(e.Pkt.Payload) == tag })
			if err != nil {
				c.Violation("first-copy-missing", fmt.Sprintf("ack storm %d: %s was never written to its subscriber", idx, tag), nil)
				return
			}
			ids[tag] = ev.Pkt.ID
		}
		far = far.Add(time.Hour)
		sweepAt := far
		stop := make(chan struct{})
		var sw sync.WaitGroup
		sw.Add(1)
		go func() {
			defer sw.Done()
			for {
				n.Ack.Expire(sweepAt)
				select {
				case <-stop:
					return
				default:
				}
			}
		}()
		for _, id := range ids {
			sub.Send(kit.EncPubAck(id))
		}
		close(stop)
		sw.Wait()
		if ok, _ := sub.Ping(kit.DefaultWait); !ok {
			c.Inconclusive("no PINGRESP in the ack storm")
			return
		}
		completed := map[string]int{} // tag -> copies seen when it completed
		for pass := 0; pass < 4 && len(completed) < k; pass++ {
			for tag, id := range ids {
				if _, done := completed[tag]; done {
					continue
				}
				if poolHas(n, id) {
					np, _ := c03Count(sub, kit.PUBLISH, tag, id)
					completed[tag] = np
					if pass == 0 {
						c.Observe("racing_acks_won", 1)
					}
				} else {
					if pass == 0 {
						c.Observe("racing_acks_lost_to_sweep", 1)
					}
					sub.Send(kit.EncPubAck(id)) // the retransmitted exchange is still open: acknowledge again (no sweep running)
				}
			}
			if ok, _ := sub.Ping(kit.DefaultWait); !ok {
				c.Inconclusive("no PINGRESP in the ack storm")
				return
			}
		}
		if len(completed) < k {
			c.Violation("identifier-not-freed", fmt.Sprintf("ack storm %d round %d: %d of %d deliveries were acknowledged repeatedly with no sweep running, yet their identifiers are not back in the pool", idx, r, k-len(completed), k), nil)
			return
		}
		for s := 0; s < 2; s++ {
			far = far.Add(time.Hour)
			n.Ack.Expire(far)
		}
		if ok, _ := sub.Ping(kit.DefaultWait); !ok {
			c.Inconclusive("no PINGRESP in the ack storm")
			return
		}
		for tag, id := range ids {
			np, _ := c03Count(sub, kit.PUBLISH, tag, id)
			c.Observe("completions_checked", 1)
			if np > completed[tag] {
				c.Violation("sent-after-completion", fmt.Sprintf("ack storm %d round %d: %s (id %d) was acknowledged while sweeps were running and its identifier went back to the pool, yet a later sweep wrote it again (%d -> %d copies): the acknowledgement and the expiry both took effect", idx, r, tag, id, completed[tag], np),
					map[string]interface{}{"storm": idx, "round": r, "id": id})
				return
			}
		}
	}
	c.Case(fmt.Sprintf("ack-storm|%d", idx), true)
}

func runC03(c *fw.Ctx) {
	c.Rule = "seeded scenarios on a broker node: 1-3 subscriber sessions (subscription QoS 1 or 2, automatic acknowledgement off) with 1-4 in-flight deliveries each; per delivery a response script (acknowledge in round 0-3 or never; QoS 2: PUBCOMP 0-2 rounds after PUBREC; optionally a wrong-type or unknown-identifier reply in some round), per session an optional disconnect round; each of 5 rounds = wrong replies, due replies, session ends, then a FORCED expiry sweep (ack.Queue.Expire with a time past every armed deadline, called by the harness) and a PINGREQ/PINGRESP barrier per session. Trace specification per delivery: >= 1+k PUBLISH copies after k sweeps unacknowledged, all with the first copy's identifier; after PUBREC >= 1 PUBREL per sweep and no further PUBLISH; after completion nothing more and the identifier is in the pool's free list (hook H1); after a session ends its identifiers are freed by the next sweep. Plus real-time scenarios without forced sweeps: silent subscribers are watched for 11 s and must see >=3 copies produced by the broker's own ticker, with deliveries started at different sub-second phases. Plus: deliveries whose very first write fails transiently (fault-injecting connection) must be retransmitted by the next sweeps; nodes whose identifier range is exactly as wide as the number of deliveries in flight (the highest identifier is used and must come back); PUBACKs racing back-to-back sweeps. distinct = script; non-trivial = every scenario (>=1 unacknowledged sweep)"
	c.Assume("lower bounds only: the writer's own 1 s ticker may add copies")
	c.Assume("wrong replies are sent with identifiers +20000 (unknown) or with a packet type the exchange does not wait for")
	n := c.Pick(150, 1500)
	sem := make(chan struct{}, 12)
	var wg sync.WaitGroup
	for s := 0; s < n; s++ {
		wg.Add(1)
		sem <- struct{}{}
		go func(s int) {
			defer wg.Done()
			defer func() { <-sem }()
			c03Scenario(c, s)
		}(s)
	}
	for i := 0; i < c.Pick(3, 12); i++ {
		wg.Add(1)
		go func(i int) { defer wg.Done(); c03RealTime(c, i) }(i)
	}
	for i := 0; i < c.Pick(6, 24); i++ {
		wg.Add(1)
		go func(i int) { defer wg.Done(); c03AckStorm(c, i) }(i)
	}
	for i := 0; i < c.Pick(4, 24); i++ {
		wg.Add(2)
		go func(i int) { defer wg.Done(); c03WriteFault(c, i) }(i)
		go func(i int) { defer wg.Done(); c03PoolEdge(c, i) }(i)
	}
	wg.Wait()
	c.Floor("retransmissions_seen", 20)
	c.Floor("completions_checked", 20)
	c.Floor("forced_sweeps", 50)
}

// c03WriteFault: the very first write of a QoS 1 / QoS 2 delivery fails (a transient fault of the
// outbound direction; the session stays connected). The delivery is unacknowledged, so the next
// sweep must retransmit it; once acknowledged its identifier is free again.
func c03WriteFault(c *fw.Ctx, idx int) {
	fw.LogCase("C03 write fault %d", idx)
	cl := kit.NewCluster(kit.WorkDir("c03w"))
	defer cl.Close()
	n, err := cl.AddNode(kit.NodeOpts{ID: 1})
	if err != nil {
		c.Inconclusive("cannot start node: " + err.Error())
		return
	}
	qos := 1 + idx%2
	sub, fault := n.DialFaulty(fmt.Sprintf("wf-sub-%d", idx))
	defer sub.Close()
	if code, err := sub.Connect(kit.ConnectOpts{ClientID: fmt.Sprintf("wf-sub-%d", idx), KeepAlive: 600, Clean: true}); err != nil || code != 0 {
		c.Inconclusive("connect failed")
		return
	}
	sub.SetAutoAck(false)
	if err := sub.Sub1("c03/wf", qos); err != nil {
		c.Inconclusive("subscribe: " + err.Error())
		return
	}
	pub, err := n.MustConnect(kit.ConnectOpts{ClientID: fmt.Sprintf("wf-pub-%d", idx), KeepAlive: 600, Clean: true})
	if err != nil {
		c.Inconclusive("connect: " + err.Error())
		return
	}
	defer pub.Close()
	far := time.Now()
	for k := 0; k < 3; k++ {
		tag := fmt.Sprintf("wf-%d-%d", idx, k)
		fault.FailNextWrites(1)
		before := atomic.LoadInt64(&fault.Failed)
		if acked, _ := pub.Publish("c03/wf", []byte(tag), 1, false, kit.DefaultWait); !acked {
			c.Inconclusive("publish not acknowledged")
			return
		}
		if !waitCount(func() int { return int(atomic.LoadInt64(&fault.Failed) - before) }, 1, 20*time.Second) {
			c.Inconclusive("the injected write failure was never hit")
			return
		}
		if np, _ := c03Count(sub, kit.PUBLISH, tag, 0); np != 0 {
			c.Inconclusive("the first copy arrived although its write was to fail")
			return
		}
		// sweeps: the unacknowledged delivery is written again
		var id int
		for s := 0; s < 3 && id == 0; s++ {
			far = far.Add(time.Hour)
			n.Ack.Expire(far)
			if ok, _ := sub.Ping(kit.DefaultWait); !ok {
				if sub.Closed() {
					c.Violation("session-dropped", fmt.Sprintf("write-fault scenario %d: one failed write of a PUBLISH ended the session", idx), nil)
				} else {
					c.Inconclusive("no PINGRESP")
				}
				return
			}
			for _, p := range sub.Publishes() {
				if string(p.Payload) == tag {
					id = p.ID
				}
			}
		}
		c.Observe("write_fault_deliveries", 1)
		if id == 0 {
			c.Violation(fmt.Sprintf("not-retransmitted:qos%d:after-write-failure", qos), fmt.Sprintf("write-fault scenario %d: the first write of the QoS %d delivery %s failed (session still connected); three forced sweeps later it has not been written again", idx, qos, tag),
				map[string]interface{}{"scenario": idx, "qos": qos, "tag": tag})
			return
		}
		c.Observe("retransmissions_seen", 1)
		if qos == 1 {
			sub.Send(kit.EncPubAck(id))
		} else {
			from := sub.NumEvents()
			sub.Send(kit.EncPubRec(id))
			if _, _, err := sub.WaitFor(from, kit.DefaultWait, func(e kit.Event) bool { return e.Pkt.Type == kit.PUBREL && e.Pkt.ID == id }); err != nil {
				c.Violation("pubrel-missing", fmt.Sprintf("write-fault scenario %d: no PUBREL after PUBREC for %s", idx, tag), nil)
				return
			}
			sub.Send(kit.EncPubComp(id))
		}
		if ok, _ := sub.Ping(kit.DefaultWait); !ok {
			c.Inconclusive("no PINGRESP")
			return
		}
		if !poolHas(n, id) {
			c.Violation("identifier-not-freed", fmt.Sprintf("write-fault scenario %d: %s (id %d) was acknowledged but its identifier is not back in the pool", idx, tag, id), nil)
			return
		}
		c.Observe("completions_checked", 1)
	}
	c.Case(fmt.Sprintf("write-fault|%d", idx), true)
}

// c03PoolEdge: a node whose identifier range is exactly as large as the number of deliveries in flight,
// so that the highest identifier of the range is used; after completion every identifier - the
// highest included - is free again and a second batch of the same size goes through.
func c03PoolEdge(c *fw.Ctx, idx int) {
	fw.LogCase("C03 pool edge %d", idx)
	width := 2 + idx%4
	lo := int32(1 + 7*(idx%3))
	cl := kit.NewCluster(kit.WorkDir("c03e"))
	defer cl.Close()
	n, err := cl.AddNode(kit.NodeOpts{ID: 1, PoolMin: lo, PoolMax: lo + int32(width) - 1})
	if err != nil {
		c.Inconclusive("cannot start node: " + err.Error())
		return
	}
	qos := 1 + idx%2
	sub, err := n.MustConnect(kit.ConnectOpts{ClientID: "edge-sub", KeepAlive: 600, Clean: true})
	if err != nil {
		c.Inconclusive("connect: " + err.Error())
		return
	}
	defer sub.Close()
	sub.SetAutoAck(false)
	if err := sub.Sub1("c03/edge", qos); err != nil {
		c.Inconclusive("subscribe: " + err.Error())
		return
	}
	pub, err := n.MustConnect(kit.ConnectOpts{ClientID: "edge-pub", KeepAlive: 600, Clean: true})
	if err != nil {
		c.Inconclusive("connect: " + err.Error())
		return
	}
	defer pub.Close()
	for batch := 0; batch < 3; batch++ {
		ids := map[string]int{}
		for k := 0; k < width; k++ {
			tag := fmt.Sprintf("edge-%d-%d-%d", idx, batch, k)
			if acked, _ := pub.Publish("c03/edge", []byte(tag), 1, false, kit.DefaultWait); !acked {
				c.Inconclusive("publish not acknowledged")
				return
			}
			ev, _, err := sub.WaitFor(0, 15*time.Second, func(e kit.Event) bool { return e.Pkt.Type == kit.PUBLISH && string(e.Pkt.Payload) == tag })
			if err != nil {
				c.Violation("first-copy-missing", fmt.Sprintf("pool-edge scenario %d (identifier range [%d,%d], QoS %d): in batch %d the delivery %s was never written although at most %d deliveries are in flight and every earlier one was acknowledged", idx, lo, lo+int32(width)-1, qos, batch, tag, k),
					map[string]interface{}{"scenario": idx, "batch": batch, "pool": fmt.Sprint(wasp.VerifPoolFree(wasp.VerifWriterPool(n.Writer)))})
				return
			}
			ids[tag] = ev.Pkt.ID
		}
		for tag, id := range ids {
			if qos == 1 {
				sub.Send(kit.EncPubAck(id))
			} else {
				from := sub.NumEvents()
				sub.Send(kit.EncPubRec(id))
				if _, _, err := sub.WaitFor(from, kit.DefaultWait, func(e kit.Event) bool { return e.Pkt.Type == kit.PUBREL && e.Pkt.ID == id }); err != nil {
					c.Violation("pubrel-missing", fmt.Sprintf("pool-edge scenario %d: no PUBREL after PUBREC for %s", idx, tag), nil)
					return
				}
				sub.Send(kit.EncPubComp(id))
			}
		}
		if ok, _ := sub.Ping(kit.DefaultWait); !ok {
			c.Inconclusive("no PINGRESP")
			return
		}
		for tag, id := range ids {
			c.Observe("completions_checked", 1)
			if !poolHas(n, id) {
				c.Violation("identifier-not-freed", fmt.Sprintf("pool-edge scenario %d (identifier range [%d,%d]): %s (id %d) was acknowledged but its identifier is not back in the pool (free: %v)", idx, lo, lo+int32(width)-1, tag, id, wasp.VerifPoolFree(wasp.VerifWriterPool(n.Writer))), nil)
				return
			}
		}
	}
	c.Case(fmt.Sprintf("pool-edge|%d", idx), true)
}
