package checks

import (
	"fmt"
	"runtime"
	"sort"
	"strings"
	"sync"
	"time"

	"github.com/vx-labs/wasp/v4/subscriptions"
	"github.com/vx-labs/wasp/v4/topics"

	"wv/fw"
)

// C19 — topic-keyed stores behave as maps over full topic strings.
//
// Oracle: map[string][]byte. Every history over the key set is executed
// against the real store with a Dump -> Load into a fresh store inserted at
// one position; at the end of the history every key is queried.

func init() {
	fw.Register("C19", fw.Spec{Run: runC19})
}

type c19Store interface {
	apply(op c19Op, step int)
	query(key string) [][]byte // non-empty values reported for exactly this key
	all() [][]byte             // Iterate
	count() int                // -1 if the store has no Count
	reload() (c19Store, error) // Dump -> Load into a fresh store
}

type c19Op struct {
	Kind byte // 'i' insert/replace, 'r' remove; 's' upsert-set, 'a' upsert-append, 'c' upsert-clear
	Key  string
}

func (o c19Op) String() string { return string(o.Kind) + "(" + o.Key + ")" }

// ---- retained-message store -------------------------------------------------

type c19Topics struct {
	s       topics.Store
	scratch []byte
}

// key hands the store a key in a buffer that the caller reuses for the next call (and scribbles
// over in between): a store must not keep references into its arguments.
func c19Key(scratch *[]byte, key string) []byte {
	for i := range *scratch {
		(*scratch)[i] = '~'
	}
	*scratch = append((*scratch)[:0], key...)
	return *scratch
}

func (t *c19Topics) apply(op c19Op, step int) {
	switch op.Kind {
	case 'i':
		t.s.Insert(c19Key(&t.scratch, op.Key), []byte(fmt.Sprintf("%s=%d", op.Key, step)))
	case 'r':
		t.s.Remove(c19Key(&t.scratch, op.Key))
	case 'e':
		t.s.Insert(c19Key(&t.scratch, op.Key), []byte{}) // a zero-length (non-nil) value: "no value" by the stores' own convention
	}
}
func (t *c19Topics) query(key string) [][]byte {
	out := [][]byte{}
	t.s.Match([]byte(key), &out)
	return out
}
func (t *c19Topics) all() [][]byte {
	out := [][]byte{}
	t.s.Iterate(func(b []byte) { out = append(out, b) })
	return out
}
func (t *c19Topics) count() int { return t.s.Count() }
func (t *c19Topics) reload() (c19Store, error) {
	buf, err := t.s.Dump()
	if err != nil {
		return nil, err
	}
	n := topics.NewTree()
	if err := n.Load(buf); err != nil {
		return nil, err
	}
	return &c19Topics{s: n}, nil
}

// ---- subscription index -----------------------------------------------------

type c19Subs struct {
	s       subscriptions.Tree
	scratch []byte
}

func (t *c19Subs) apply(op c19Op, step int) {
	switch op.Kind {
	case 's':
		t.s.Upsert(c19Key(&t.scratch, op.Key), func([]byte) []byte { return []byte(fmt.Sprintf("%s=%d", op.Key, step)) })
	case 'a':
		t.s.Upsert(c19Key(&t.scratch, op.Key), func(old []byte) []byte {
			if len(old) == 0 {
				return []byte(fmt.Sprintf("%s=%d", op.Key, step))
			}
			return append(append([]byte{}, old...), []byte(fmt.Sprintf("+%d", step))...)
		})
	case 'c':
		t.s.Upsert(c19Key(&t.scratch, op.Key), func([]byte) []byte { return nil })
	case 'z':
		t.s.Upsert(c19Key(&t.scratch, op.Key), func([]byte) []byte { return []byte{} })
	}
}
func (t *c19Subs) query(key string) [][]byte {
	out := [][]byte{}
	t.s.Walk([]byte(key), func(b []byte) {
		if len(b) > 0 {
			out = append(out, b)
		}
	})
	return out
}
func (t *c19Subs) all() [][]byte {
	out := [][]byte{}
	t.s.Iterate(func(b []byte) { out = append(out, b) })
	return out
}
func (t *c19Subs) count() int { return -1 }
func (t *c19Subs) reload() (c19Store, error) {
	buf, err := t.s.Dump()
	if err != nil {
		return nil, err
	}
	n := subscriptions.NewTree()
	if err := n.Load(buf); err != nil {
		return nil, err
	}
	return &c19Subs{s: n}, nil
}

// ---- model -------------------------------------------------------------------

func c19Model(ops []c19Op) map[string]string {
	m := map[string]string{}
	for step, op := range ops {
		switch op.Kind {
		case 'i', 's':
			m[op.Key] = fmt.Sprintf("%s=%d", op.Key, step)
		case 'a':
			if old, ok := m[op.Key]; ok {
				m[op.Key] = old + fmt.Sprintf("+%d", step)
			} else {
				m[op.Key] = fmt.Sprintf("%s=%d", op.Key, step)
			}
		case 'r', 'c', 'e', 'z':
			delete(m, op.Key)
		}
	}
	return m
}

type c19Failure struct {
	class string
	what  string
}

// c19RunHistory executes ops with a dump/load at position dumpAt (-1 = none)
// and compares the final store with the model. walkQueries says whether
// per-key point queries are meaningful for every key (false when the key set
// contains wildcard filters for the subscription tree, where Walk has matching
// semantics; identity is then checked through Iterate only).
func c19RunHistory(newStore func() c19Store, ops []c19Op, dumpAt int, keys []string, pointQueries bool) (fail *c19Failure) {
	defer func() {
		if r := recover(); r != nil {
			fail = &c19Failure{"panic", fmt.Sprintf("panic: %v", r)}
		}
	}()
	st := newStore()
	for i, op := range ops {
		if i == dumpAt {
			n, err := st.reload()
			if err != nil {
				return &c19Failure{"dump-load-error", err.Error()}
			}
			if f := c19Compare(n, c19Model(ops[:i]), keys, pointQueries); f != nil {
				f.class = "after-load:" + f.class
				return f
			}
			st = n
		}
		st.apply(op, i)
	}
	if dumpAt == len(ops) {
		n, err := st.reload()
		if err != nil {
			return &c19Failure{"dump-load-error", err.Error()}
		}
		st = n
		if f := c19Compare(st, c19Model(ops), keys, pointQueries); f != nil {
			f.class = "after-load:" + f.class
			return f
		}
		return nil
	}
	return c19Compare(st, c19Model(ops), keys, pointQueries)
}

func c19Compare(st c19Store, m map[string]string, keys []string, pointQueries bool) *c19Failure {
	if pointQueries {
		for _, k := range keys {
			got := st.query(k)
			want, ok := m[k]
			switch {
			case ok && (len(got) != 1 || string(got[0]) != want):
				return &c19Failure{"point-query", fmt.Sprintf("query(%q) = %s, want [%q]", k, c19Fmt(got), want)}
			case !ok && len(got) != 0:
				return &c19Failure{"point-query", fmt.Sprintf("query(%q) = %s, want nothing", k, c19Fmt(got))}
			}
		}
	}
	all := st.all()
	gotAll := make([]string, len(all))
	for i, b := range all {
		gotAll[i] = string(b)
	}
	sort.Strings(gotAll)
	wantAll := []string{}
	for _, v := range m {
		wantAll = append(wantAll, v)
	}
	sort.Strings(wantAll)
	if strings.Join(gotAll, "\x00") != strings.Join(wantAll, "\x00") {
		return &c19Failure{"iterate", fmt.Sprintf("Iterate = %q, want %q", gotAll, wantAll)}
	}
	if c := st.count(); c >= 0 && c != len(m) {
		return &c19Failure{"count", fmt.Sprintf("Count = %d, want %d", c, len(m))}
	}
	return nil
}

// c19EmptyValuesConsistent re-runs ops (no dump) and accepts a store that keeps zero-length values as
// entries, provided it does so consistently: Count equals the number of entries Iterate lists, and the
// non-empty values listed are exactly the model's.
func c19EmptyValuesConsistent(newStore func() c19Store, ops []c19Op) (ok bool) {
	defer func() {
		if recover() != nil {
			ok = false
		}
	}()
	st := newStore()
	for i, op := range ops {
		st.apply(op, i)
	}
	all := st.all()
	if n := st.count(); n >= 0 && n != len(all) {
		return false
	}
	got := []string{}
	for _, b := range all {
		if len(b) > 0 {
			got = append(got, string(b))
		}
	}
	want := []string{}
	for _, v := range c19Model(ops) {
		want = append(want, v)
	}
	sort.Strings(got)
	sort.Strings(want)
	return strings.Join(got, "\x00") == strings.Join(want, "\x00")
}

func c19Fmt(b [][]byte) string {
	s := make([]string, len(b))
	for i := range b {
		s[i] = string(b[i])
	}
	return fmt.Sprintf("%q", s)
}

func c19HasEmptyLevel(ops []c19Op) bool {
	for _, o := range ops {
		for _, l := range strings.Split(o.Key, "/") {
			if l == "" {
				return true
			}
		}
	}
	return false
}

func runC19(c *fw.Ctx) {
	c.Rule = "every history of <=L operations over the key set {a, a/b, a/b/c, a/c, b} (L=4 quick; 6 retained store / 5 subscription index thorough) x every position of a Dump->Load round trip into a fresh store (and none), enumerated completely; plus seeded histories of 8-20 operations over key sets with empty levels (a, a/, a//b, /a) and, for the subscription index, wildcard filters (a/+, a/#) checked through Iterate, and histories that also store zero-length (non-nil) values, which both stores treat as 'no value' (point queries, Iterate and Count must agree on that); keys are handed over in a buffer the caller reuses and overwrites between calls; after the history every key is point-queried (Match/Walk), Iterate and Count are compared with map[string][]byte. distinct = (store, history, dump position); non-trivial = the history touches >=2 different keys or re-touches a key, i.e. length >=2"
	c.Assume("values are opaque non-empty byte strings; an empty value means 'absent' in both stores by design")
	c.Assume("the Insert return flag and Remove's error value are not compared (they feed statistics only)")
	keys := []string{"a", "a/b", "a/b/c", "a/c", "b"}
	type storeKind struct {
		name  string
		mk    func() c19Store
		kinds []byte
		maxL  int
	}
	kinds := []storeKind{
		{"topics", func() c19Store { return &c19Topics{s: topics.NewTree()} }, []byte{'i', 'r'}, c.Pick(4, 6)},
		{"subscriptions", func() c19Store { return &c19Subs{s: subscriptions.NewTree()} }, []byte{'s', 'a', 'c'}, c.Pick(4, 5)},
	}
	workers := runtime.NumCPU()
	start := time.Now()
	for _, sk := range kinds {
		alphabet := []c19Op{}
		for _, k := range keys {
			for _, kd := range sk.kinds {
				alphabet = append(alphabet, c19Op{kd, k})
			}
		}
		// enumerate by length so that the first witness per class is minimal
		for L := 1; L <= sk.maxL; L++ {
			total := 1
			for i := 0; i < L; i++ {
				total *= len(alphabet)
			}
			var wg sync.WaitGroup
			chunk := (total + workers - 1) / workers
			for w := 0; w < workers; w++ {
				lo, hi := w*chunk, (w+1)*chunk
				if hi > total {
					hi = total
				}
				if lo >= hi {
					break
				}
				wg.Add(1)
				go func(lo, hi int) {
					defer wg.Done()
					ops := make([]c19Op, L)
					for idx := lo; idx < hi; idx++ {
						x := idx
						for i := L - 1; i >= 0; i-- {
							ops[i] = alphabet[x%len(alphabet)]
							x /= len(alphabet)
						}
						for dumpAt := -1; dumpAt <= L; dumpAt++ {
							f := c19RunHistory(sk.mk, ops, dumpAt, keys, true)
							if f != nil {
								c.Violation(sk.name+":"+f.class, fmt.Sprintf("%s store, history %v, dump/load at %d: %s", sk.name, ops, dumpAt, f.what),
									map[string]interface{}{"store": sk.name, "history": fmt.Sprint(ops), "dump_load_at": dumpAt, "observed": f.what})
							}
						}
					}
				}(lo, hi)
			}
			wg.Wait()
			if L >= 2 {
				c.CaseBulk(total*(L+2), total*(L+2))
			} else {
				c.CaseBulk(total*(L+2), 0)
			}
			c.Observe("histories_len_"+fmt.Sprint(L)+"_"+sk.name, total*(L+2))
		}
		c.Sample(map[string]interface{}{"store": sk.name, "history": fmt.Sprint([]c19Op{alphabet[0], alphabet[3], alphabet[len(alphabet)-1]}), "dump_load_at": 1})
	}
	c.Exhaustive(true)

	// seeded part: empty levels and wildcard filters
	n := c.Pick(4000, 200000)
	sets := []struct {
		name   string
		keys   []string
		point  bool
		stores []int
	}{
		{"empty-level", []string{"a", "a/", "a//b", "/a", "a/b", "/"}, true, []int{0, 1}},
		{"wildcard-filter-keys", []string{"a", "a/+", "a/#", "a/b", "+", "#", "+/b"}, false, []int{1}},
		{"empty-value", []string{"a", "a/b", "b"}, true, []int{0, 1}},
	}
	for si, set := range sets {
		for _, ki := range set.stores {
			sk := kinds[ki]
			var wg sync.WaitGroup
			for w := 0; w < workers; w++ {
				wg.Add(1)
				go func(w int) {
					defer wg.Done()
					rng := c.SubRng(fmt.Sprintf("c19/%d/%d", si, ki), w)
					for i := w; i < n; i += workers {
						L := 2 + rng.Intn(10)
						ops := make([]c19Op, L)
						opKinds := sk.kinds
						if set.name == "empty-value" {
							opKinds = append(append([]byte{}, sk.kinds...), map[string]byte{"topics": 'e', "subscriptions": 'z'}[sk.name])
						}
						for j := range ops {
							ops[j] = c19Op{opKinds[rng.Intn(len(opKinds))], set.keys[rng.Intn(len(set.keys))]}
						}
						dumpAt := rng.Intn(L+2) - 1
						f := c19RunHistory(sk.mk, ops, dumpAt, set.keys, set.point)
						if f != nil && set.name == "empty-value" && c19EmptyValuesConsistent(sk.mk, ops) {
							// zero-length values kept as entries, but consistently so (Count = what Iterate lists, the
							// non-empty values are the model's): another legitimate reading of "a zero-length value"
							f = nil
							c.Observe("empty_value_histories_with_entries_kept", 1)
						}
						c.Case(fmt.Sprintf("%s|%s|%v|%d", set.name, sk.name, ops, dumpAt), true)
						if f != nil {
							c.Violation(sk.name+":"+set.name+":"+f.class, fmt.Sprintf("%s store, key set %s, history %v, dump/load at %d: %s", sk.name, set.name, ops, dumpAt, f.what),
								map[string]interface{}{"store": sk.name, "history": fmt.Sprint(ops), "dump_load_at": dumpAt, "observed": f.what})
						}
						if i < 2 {
							c.Sample(map[string]interface{}{"store": sk.name, "keyset": set.name, "history": fmt.Sprint(ops), "dump_load_at": dumpAt})
						}
					}
				}(w)
			}
			wg.Wait()
			c.Observe("seeded_histories_"+set.name+"_"+sk.name, n)
		}
	}
	c.Extra("enumeration_wall_s", time.Since(start).Seconds())
	// the stores are also used concurrently: writers on distinct keys and readers (Match, Iterate, Count,
	// Walk) on all, also on stores rebuilt by Load. Same workload as C20's, here without the race
	// detector: lost updates, wrong counts and runtime map-access faults still show.
	for r := 0; r < c.Pick(8, 60); r++ {
		c20Tries(c, 700+r)
	}
}
