package checks

import "wv/fw"

// filled in once the broker kit exists
var c16EndToEnd = func(c *fw.Ctx) {}
