package checks

import (
	"fmt"
	"os"
	"path/filepath"
	"strings"
	"time"

	"github.com/vx-labs/wasp/v4/wasp/auth"

	"wv/fw"
	"wv/kit"
)

// End-to-end part of C16: CONNECTs against a broker node whose authentication
// handler is the real file (or static) handler.
var c16EndToEnd = func(c *fw.Ctx) {
	rg := c.SubRng("c16/e2e", 0)
	dir := kit.WorkDir("c16e")
	defer os.RemoveAll(dir)
	rounds := c.Pick(6, 60)
	for r := 0; r < rounds; r++ {
		// a table of 3-6 users, mixed line shapes
		k := 3 + rg.Intn(4)
		if r%6 == 4 {
			k = 0 // an empty credential store: everybody is refused
		}
		perm := rg.Perm(len(c16Users))[:k]
		table := []c16Entry{}
		for _, ui := range perm {
			e := c16Entry{User: c16Users[ui], Pass: c16Pass(c16Users[ui]), Fields: 2 + rg.Intn(2)}
			if e.Fields == 3 && rg.Intn(3) > 0 {
				e.Mount = "tenant-" + e.User[:1]
			}
			table = append(table, e)
		}
		lines := []string{}
		for _, e := range table {
			lines = append(lines, e.line())
		}
		path := filepath.Join(dir, fmt.Sprintf("cred-%d.csv", r))
		os.WriteFile(path, []byte(strings.Join(lines, "\n")+"\n"), 0600)
		static := r%3 == 2 && k > 0
		var h auth.AuthenticationHandler
		var err error
		if static {
			h, err = auth.StaticHandler(table[0].User, table[0].Pass)
		} else {
			h, err = auth.FileHandler(path)
		}
		if err != nil {
			c.Violation("e2e:handler", fmt.Sprintf("handler construction failed for table %v: %v", table, err), nil)
			continue
		}
		fw.LogCase("C16 e2e round %d static=%v table %v", r, static, table)
		cl := kit.NewCluster(filepath.Join(dir, fmt.Sprintf("cluster-%d", r)))
		n, err := cl.AddNode(kit.NodeOpts{ID: 1, Auth: h})
		if err != nil {
			c.Inconclusive("cannot start node: " + err.Error())
			cl.Close()
			return
		}
		func() {
			defer cl.Close()
			cands := []c16Cand{{"nobody", "x"}, {"", ""}, {"alice", c16Pass("alice")}}
			if k > 0 {
				cands = append(cands, c16Cand{table[0].User, "wrong"}, c16Cand{table[0].User, table[0].Pass})
				for _, e := range table[1:] {
					cands = append(cands, c16Cand{e.User, e.Pass}, c16Cand{e.User, table[0].Pass})
				}
				for _, a := range c16Absent[:4] {
					cands = append(cands, c16Cand{a, table[rg.Intn(k)].Pass})
				}
			}
			for ci, cd := range cands {
				want := false
				wantMount := auth.DefaultMountPoint
				for i, e := range table {
					if static && i > 0 {
						break
					}
					if e.User == cd.User && e.Pass == cd.Pass {
						want = true
						if !static {
							wantMount = e.wantMount()
						}
					}
				}
				clientID := fmt.Sprintf("c16-%d-%d", r, ci)
				willTag := "refused-will-" + clientID
				cc := n.Dial(clientID)
				code, cerr := cc.Connect(kit.ConnectOpts{ClientID: clientID, KeepAlive: 60, Clean: true, User: cd.User, Pass: cd.Pass, HasUser: true, HasPass: true,
					Will: true, WillTopic: "c16/will", WillPayload: []byte(willTag)})
				desc := fmt.Sprintf("round %d (%s handler, table %v): CONNECT as (%q,%q)", r, map[bool]string{true: "static", false: "file"}[static], table, cd.User, cd.Pass)
				c.Observe("e2e_connects", 1)
				c.Case(fmt.Sprintf("e2e|%v|%v|%v", static, table, cd), true)
				switch {
				case want && (cerr != nil || code != 0):
					c.Violation("e2e:valid-refused", fmt.Sprintf("%s was not accepted (code %d, %v)", desc, code, cerr), nil)
				case !want && cerr == nil && code == 0:
					c.Violation("e2e:invalid-accepted", fmt.Sprintf("%s was accepted", desc), nil)
				case !want && cerr != nil:
					c.Violation("e2e:no-refusal-connack", fmt.Sprintf("%s was not answered with a refusal CONNACK (%v)", desc, cerr), nil)
				case want:
					c.Observe("e2e_accepted", 1)
					found := false
					for _, s := range n.State.SessionMetadatas().All() {
						if s.ClientID == clientID {
							found = true
							if s.MountPoint != wantMount {
								c.Violation("e2e:wrong-mountpoint", fmt.Sprintf("%s: session placed in mount point %q, want %q", desc, s.MountPoint, wantMount), nil)
							}
						}
					}
					if !found {
						c.Violation("e2e:accepted-without-session", desc+": accepted but no session record exists", nil)
					}
					cc.Send(kit.EncDisconnect())
				default:
					c.Observe("e2e_refused", 1)
					// a refused CONNECT leaves nothing behind
					cc.Close()
					time.Sleep(20 * time.Millisecond)
					for _, s := range n.State.SessionMetadatas().All() {
						if s.ClientID == clientID {
							c.Violation("e2e:refused-left-session", fmt.Sprintf("%s was refused but a session record exists (mount point %q)", desc, s.MountPoint), nil)
						}
					}
					for _, s := range n.Local.ListSessions() {
						if s.ClientID() == clientID {
							c.Violation("e2e:refused-left-session", desc+" was refused but a session is registered", nil)
						}
					}
				}
				cc.Close()
			}
			// no will of a refused connection was ever stored or published
			for _, rec := range n.Log.Records() {
				if strings.HasPrefix(string(rec.Payload), "refused-will-") {
					// refused connections create no will; accepted ones disconnected cleanly above
					c.Violation("e2e:will-published", fmt.Sprintf("round %d: a will (%s) was published although refused connections create no will and accepted ones disconnected cleanly", r, rec.Payload), nil)
				}
			}
		}()
	}
	c.Floor("e2e_refused", 5)
	c.Floor("e2e_accepted", 5)
}
