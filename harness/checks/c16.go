package checks

import (
	"context"
	"crypto/sha256"
	"fmt"
	"os"
	"path/filepath"
	"runtime"
	"strings"
	"sync"

	"github.com/vx-labs/wasp/v4/wasp/auth"

	"wv/fw"
)

// C16 — clients are admitted iff their credentials match the configured store.
// (Store level here; the end-to-end CONNACK / no-trace part is in c16e2e.go.)

func init() {
	fw.Register("C16", fw.Spec{Run: runC16})
}

type c16Entry struct {
	User, Pass string
	Fields     int    // 2 or 3
	Mount      string // third field ("" = empty third field)
	HashMode   int    // 0: the full digest; 1: blank hash field; 2: only the first 8 hex digits (such lines admit nobody)
}

func (e c16Entry) line() string {
	h := fmt.Sprintf("%x", sha256.Sum256([]byte(e.Pass)))
	switch e.HashMode {
	case 1:
		h = ""
	case 2:
		h = h[:8]
	}
	if e.Fields == 2 {
		return e.User + ":" + h
	}
	return e.User + ":" + h + ":" + e.Mount
}

func (e c16Entry) String() string {
	if e.HashMode != 0 {
		return e.User + ":" + []string{"", "<blank hash>", "<first 8 digits of the hash>"}[e.HashMode] + ":" + e.Mount
	}
	if e.Fields == 2 {
		return e.User + ":sha256(" + e.Pass + ")"
	}
	return e.User + ":sha256(" + e.Pass + "):" + e.Mount
}

func (e c16Entry) wantMount() string {
	if e.Fields == 2 || e.Mount == "" {
		return auth.DefaultMountPoint
	}
	return e.Mount
}

type c16Cand struct{ User, Pass string }

var c16Users = []string{"alice", "bob", "carol", "dave", "erin", "frank", "#ops"}

// user names that are never in a table
var c16Absent = []string{"nobody", "zed", "aaa", "mallory", "0", "trent", "~", "alic", "alicea", "Bob"}

func c16Pass(u string) string { return "pw-" + u }

// c16CheckTable loads the table through the real FileHandler and tries the candidates.
func c16CheckTable(c *fw.Ctx, dir string, id int, table []c16Entry) {
	lines := make([]string, len(table))
	for i, e := range table {
		lines[i] = e.line()
	}
	path := filepath.Join(dir, fmt.Sprintf("cred-%d.csv", id))
	content := strings.Join(lines, "\n") + "\n"
	if len(table) == 0 {
		content = []string{"", "\n", "\n\n\n"}[id%3] // an empty store: no lines, or blank lines only
	}
	if err := os.WriteFile(path, []byte(content), 0600); err != nil {
		c.Inconclusive("cannot write credential file: " + err.Error())
		return
	}
	defer os.Remove(path)
	desc := fmt.Sprint(table)
	mixed := false
	has3 := false
	for _, e := range table {
		if e.Fields != table[0].Fields {
			mixed = true
		}
		if e.Fields == 3 {
			has3 = true
		}
	}
	var h auth.AuthenticationHandler
	var err error
	func() {
		defer func() {
			if r := recover(); r != nil {
				err = fmt.Errorf("panic: %v", r)
				cls := "load-panic"
				c.Violation("file:"+cls, fmt.Sprintf("FileHandler panicked on table %s: %v", desc, r), map[string]interface{}{"table": lines, "panic": fmt.Sprint(r)})
			}
		}()
		h, err = auth.FileHandler(path)
	}()
	if err != nil {
		if !strings.HasPrefix(err.Error(), "panic:") {
			cls := "load-error"
			if mixed {
				cls = "load-error-mixed-field-counts"
			}
			c.Violation("file:"+cls, fmt.Sprintf("FileHandler rejected the well-formed table %s: %v", desc, err), map[string]interface{}{"table": lines, "error": err.Error()})
		}
		return
	}
	byUser := map[string]c16Entry{}
	for _, e := range table {
		byUser[e.User] = e
	}
	cands := []c16Cand{{"", ""}, {"nobody", "pw-nobody"}, {"nobody", ""}}
	if len(table) > 0 {
		cands = append(cands, c16Cand{"", c16Pass(table[0].User)}, c16Cand{table[0].User, ""})
	} else {
		for _, u := range c16Users {
			cands = append(cands, c16Cand{u, c16Pass(u)}, c16Cand{u, ""})
		}
	}
	// absent users (their hashes fall before, between and after the stored ones) with every stored password
	for _, a := range c16Absent {
		cands = append(cands, c16Cand{a, c16Pass(a)})
		for _, o := range table {
			cands = append(cands, c16Cand{a, o.Pass})
		}
	}
	for _, e := range table {
		cands = append(cands, c16Cand{e.User, e.Pass})
		cands = append(cands, c16Cand{e.User, e.Pass + "x"})
		cands = append(cands, c16Cand{e.User, fmt.Sprintf("%x", sha256.Sum256([]byte(e.Pass)))}) // presenting the stored hash
		for _, o := range table {
			if o.User != e.User {
				cands = append(cands, c16Cand{e.User, o.Pass}) // swapped pair
			}
		}
	}
	for _, cd := range cands {
		e, present := byUser[cd.User]
		want := present && e.Pass == cd.Pass && e.HashMode == 0
		var p auth.Principal
		var aerr error
		func() {
			defer func() {
				if r := recover(); r != nil {
					aerr = fmt.Errorf("panic: %v", r)
					c.Violation("file:authenticate-panic", fmt.Sprintf("Authenticate(%q,%q) panicked on table %s: %v", cd.User, cd.Pass, desc, r), map[string]interface{}{"table": lines, "candidate": cd})
				}
			}()
			p, aerr = h.Authenticate(context.Background(), auth.ApplicationContext{ClientID: []byte("cid"), Username: []byte(cd.User), Password: []byte(cd.Pass)}, auth.TransportContext{})
		}()
		got := aerr == nil
		c.Observe("authenticate_calls", 1)
		switch {
		case want && !got:
			c.Violation("file:valid-rejected", fmt.Sprintf("table %s: valid credentials (%s,%s) rejected: %v", desc, cd.User, cd.Pass, aerr),
				map[string]interface{}{"table": lines, "candidate": cd, "position_in_file": indexOfUser(table, cd.User)})
		case !want && got:
			c.Violation("file:invalid-accepted", fmt.Sprintf("table %s: credentials (%q,%q) accepted", desc, cd.User, cd.Pass), map[string]interface{}{"table": lines, "candidate": cd})
		case want && got:
			c.Observe("accepted", 1)
			if p.MountPoint != e.wantMount() {
				c.Violation("file:wrong-mountpoint", fmt.Sprintf("table %s: %s admitted into mount point %q, want %q", desc, cd.User, p.MountPoint, e.wantMount()), map[string]interface{}{"table": lines, "candidate": cd, "got": p.MountPoint, "want": e.wantMount()})
			}
			if p.ID == "" {
				c.Violation("file:empty-session-id", fmt.Sprintf("table %s: %s admitted with an empty session id", desc, cd.User), nil)
			}
		default:
			c.Observe("rejected", 1)
		}
	}
	_ = has3
}

func indexOfUser(t []c16Entry, u string) int {
	for i, e := range t {
		if e.User == u {
			return i
		}
	}
	return -1
}

func runC16(c *fw.Ctx) {
	c.Rule = "credential files: the empty store and every table of 1-3 (quick) / 1-4 (thorough) distinct users out of 6, in every order, each line with 2 fields, 3 fields and a mount point, or 3 fields and an empty mount point - enumerated completely - plus seeded tables of 4-6 entries, an eighth of whose lines carry a blank or truncated hash field (such a line admits nobody); user names include one that starts with '#'; each table is written to disk and loaded by the real FileHandler; candidates = every present pair, wrong password, the stored hash presented as password, every swapped pair, ten absent users (hashes before/between/after the stored ones) each with every stored password, empty user and/or password. Oracle: exact lookup in the generated table, mount point = third field or the default when absent/empty. Static handler likewise. distinct = (table, candidate set); non-trivial = table has >=2 entries or a 3-field line. End-to-end part: CONNECTs against a broker node with the file/static handler. Wiring part: getAuthHandler of cmd/wasp (configuration -> handler; package main, reached by a driver test injected with go test -overlay) with the settings of both stores present and the provider choosing; candidates from both stores"
	c.Assume("second field of a credential line = lowercase hex SHA-256 of the password (the loader stores it into PasswordHash and compares it with the hash of the presented password)")
	c.Assume("user names are distinct within a table and free of CSV metacharacters")
	dir := os.Getenv("VERIF_WORK")
	if dir == "" {
		dir = os.TempDir()
	}
	dir = filepath.Join(dir, "c16")
	os.MkdirAll(dir, 0755)
	defer os.RemoveAll(dir)

	variants := []c16Entry{{Fields: 2}, {Fields: 3, Mount: "tenantA"}, {Fields: 3, Mount: ""}}
	var tables [][]c16Entry
	maxK := c.Pick(3, 4)
	var rec func(cur []c16Entry, used int)
	rec = func(cur []c16Entry, used int) {
		if len(cur) > 0 {
			tables = append(tables, append([]c16Entry{}, cur...))
		}
		if len(cur) == maxK {
			return
		}
		for ui, u := range c16Users {
			if used&(1<<ui) != 0 {
				continue
			}
			for _, v := range variants {
				e := v
				e.User, e.Pass = u, c16Pass(u)
				if e.Fields == 3 && e.Mount != "" {
					e.Mount = "tenant-" + u[:1]
				}
				rec(append(cur, e), used|1<<ui)
			}
		}
	}
	rec(nil, 0)
	tables = append(tables, []c16Entry{}, []c16Entry{}, []c16Entry{}) // the empty store, three spellings
	exhaustiveN := len(tables)
	// seeded larger tables
	rg := c.SubRng("c16", 0)
	for i := 0; i < c.Pick(1500, 20000); i++ {
		k := 4 + rg.Intn(3)
		perm := rg.Perm(len(c16Users))[:k]
		t := []c16Entry{}
		for _, ui := range perm {
			e := variants[rg.Intn(3)]
			e.User, e.Pass = c16Users[ui], c16Pass(c16Users[ui])
			if rg.Intn(8) == 0 {
				e.HashMode = 1 + rg.Intn(2) // a locked account: blank or truncated hash field
			}
			if e.Fields == 3 && e.Mount != "" {
				e.Mount = "tenant-" + e.User[:1]
			}
			t = append(t, e)
		}
		tables = append(tables, t)
	}
	workers := runtime.NumCPU()
	var wg sync.WaitGroup
	for w := 0; w < workers; w++ {
		wg.Add(1)
		go func(w int) {
			defer wg.Done()
			for i := w; i < len(tables); i += workers {
				t := tables[i]
				c16CheckTable(c, dir, i, t)
				nt := len(t) >= 2
				for _, e := range t {
					if e.Fields == 3 {
						nt = true
					}
				}
				c.Case(fmt.Sprint(t), nt)
				if i == 40 || i == exhaustiveN+3 {
					c.Sample(map[string]interface{}{"table": fmt.Sprint(t)})
				}
			}
		}(w)
	}
	wg.Wait()
	c.Observe("tables_exhaustive", exhaustiveN)
	c.Observe("tables_seeded", len(tables)-exhaustiveN)
	c.Exhaustive(false)
	c.Extra("exhaustive_part", fmt.Sprintf("all %d tables of <=%d entries", exhaustiveN, maxK))

	// static handler
	for _, u := range c16Users {
		h, err := auth.StaticHandler(u, c16Pass(u))
		if err != nil {
			c.Violation("static:constructor", err.Error(), nil)
			continue
		}
		for _, cd := range []c16Cand{{u, c16Pass(u)}, {u, "x"}, {"x", c16Pass(u)}, {"", ""}, {u, ""}, {"", c16Pass(u)}, {c16Pass(u), u}, {u, fmt.Sprintf("%x", sha256.Sum256([]byte(c16Pass(u))))},
			{u + c16Pass(u), ""}, {"", u + c16Pass(u)}, {u[:len(u)-1], u[len(u)-1:] + c16Pass(u)}, {u + c16Pass(u)[:2], c16Pass(u)[2:]}} {
			p, aerr := h.Authenticate(context.Background(), auth.ApplicationContext{Username: []byte(cd.User), Password: []byte(cd.Pass)}, auth.TransportContext{})
			want := cd.User == u && cd.Pass == c16Pass(u)
			c.Case(fmt.Sprintf("static|%s|%v", u, cd), true)
			c.Observe("authenticate_calls", 1)
			if want != (aerr == nil) {
				c.Violation("static:decision", fmt.Sprintf("static(%s): candidate (%q,%q) accepted=%v, want %v", u, cd.User, cd.Pass, aerr == nil, want), nil)
			} else if want && p.MountPoint != auth.DefaultMountPoint {
				c.Violation("static:mountpoint", fmt.Sprintf("static(%s): admitted into %q", u, p.MountPoint), nil)
			}
		}
	}
	c.Floor("accepted", 100)
	c.Floor("rejected", 100)

	c16EndToEnd(c)
	c16Wiring(c)
}
