package checks

import (
	"errors"
	"fmt"
	"sort"
	"strings"
	"sync"
	"time"

	"github.com/vx-labs/mqtt-protocol/packet"
	"github.com/vx-labs/wasp/v4/wasp/api"

	"wv/fw"
	"wv/kit"
	"wv/model"
)

// C14 — a publish reaches matching subscribers on other nodes exactly once.

func init() {
	fw.Register("C14", fw.Spec{Run: runC14})
}

type c14Sub struct {
	node    int
	filters []string
	cl      *kit.Client
}

var c14Filters = []string{"d/a", "d/a/#", "d/+", "d/#", "d/a/b", "d/+/b", "d/b", "d/a/+", "d/a/"}
var c14Topics = []string{"d/a", "d/a/b", "d/b", "d/c/b", "d/a/b/c", "e/x", "d/a/"}

// waitCount polls a counter function until it reaches want (count-based, generous bound).
func waitCount(f func() int, want int, d time.Duration) bool {
	deadline := time.Now().Add(d)
	for {
		if f() >= want {
			return true
		}
		if time.Now().After(deadline) {
			return false
		}
		time.Sleep(2 * time.Millisecond)
	}
}

func c14Scenario(c *fw.Ctx, s int) {
	rg := c.SubRng("c14", s)
	fw.LogCase("C14 scenario %d", s)
	nNodes := 2 + rg.Intn(2)
	cl := kit.NewCluster(kit.WorkDir("c14"))
	defer cl.Close()
	nodes := []*kit.Node{}
	for i := 1; i <= nNodes; i++ {
		n, err := cl.AddNode(kit.NodeOpts{ID: uint64(i)})
		if err != nil {
			c.Inconclusive("cannot start node: " + err.Error())
			return
		}
		nodes = append(nodes, n)
	}
	// subscribers
	nSubs := 1 + rg.Intn(4)
	subs := []*c14Sub{}
	for i := 0; i < nSubs; i++ {
		su := &c14Sub{node: rg.Intn(nNodes)}
		k := 1 + rg.Intn(2)
		seen := map[string]bool{}
		for len(su.filters) < k {
			f := c14Filters[rg.Intn(len(c14Filters))]
			if !seen[f] {
				seen[f] = true
				su.filters = append(su.filters, f)
			}
		}
		cc, err := nodes[su.node].MustConnect(kit.ConnectOpts{ClientID: fmt.Sprintf("c14-%d-sub%d", s, i), KeepAlive: 600, Clean: true})
		if err != nil {
			c.Inconclusive("connect: " + err.Error())
			return
		}
		defer cc.Close()
		for _, f := range su.filters {
			if err := cc.Sub1(f, 0); err != nil {
				c.Inconclusive("subscribe: " + err.Error())
				return
			}
		}
		if err := cc.Sub1("zz/c14", 0); err != nil {
			c.Inconclusive("subscribe: " + err.Error())
			return
		}
		su.cl = cc
		subs = append(subs, su)
	}
	nPubs := 1 + rg.Intn(2)
	pubs := []*kit.Client{}
	pubNode := []int{}
	for i := 0; i < nPubs; i++ {
		pn := rg.Intn(nNodes)
		pc, err := nodes[pn].MustConnect(kit.ConnectOpts{ClientID: fmt.Sprintf("c14-%d-pub%d", s, i), KeepAlive: 600, Clean: true})
		if err != nil {
			c.Inconclusive("connect: " + err.Error())
			return
		}
		defer pc.Close()
		pubs = append(pubs, pc)
		pubNode = append(pubNode, pn)
	}
	// stale gossip: subscriptions attributed to a node whose sessions do not exist there (any more); they are
	// recipients of nothing and must not stand in the way of the real ones
	type ghostSub struct {
		node   int
		filter string
	}
	ghosts := []ghostSub{}
	for ni := range nodes {
		for k, f := range []string{"d/#", "d/a", "d/+", "d/a/b", "#"} {
			if (s+k+ni)%2 == 0 {
				continue
			}
			ghosts = append(ghosts, ghostSub{ni, f})
			stale := kit.EncodeEvent(&api.StateBroadcastEvent{Subscriptions: []*api.Subscription{{
				SessionID: fmt.Sprintf("ghost-%d-%d", ni, k), Pattern: []byte("_default/" + f), Peer: uint64(ni + 1), QoS: int32(k % 3), LastAdded: time.Now().UnixNano()}}})
			for _, every := range nodes {
				every.State.Distributor().NotifyMsg(stale)
			}
		}
	}
	cl.Quiesce() // gossip barrier: every node knows every subscription
	if s%2 == 1 {
		// full-state exchanges echo entries the receiver already holds; they must change nothing
		for _, a := range nodes {
			for _, b := range nodes {
				if a != b {
					cl.PushPull(a, b)
				}
			}
		}
		cl.Quiesce()
		c.Observe("scenarios_with_push_pull_echo", 1)
	}
	placement := []string{}
	for i, su := range subs {
		placement = append(placement, fmt.Sprintf("sub%d@n%d%v", i, su.node+1, su.filters))
	}
	for i := range pubs {
		placement = append(placement, fmt.Sprintf("pub%d@n%d", i, pubNode[i]+1))
	}

	type sentMsg struct {
		tag, topic string
		pub        int
		unreach    map[int]bool
		dests      map[int]bool
		expectAck  bool
		id         int
		qos        int
		localFails bool
		replyLost  int // node whose reply to the forwarding call is lost once (-1: none)
		remoteFail int // reachable remote destination whose own log rejects the write (-1: none)
	}
	sent := []*sentMsg{}
	seqNo := 0
	appendCount := func(node int, tag string) int { // successful appends
		k := 0
		for _, r := range nodes[node].Log.Records() {
			if string(r.Payload) == tag && r.Err == nil {
				k++
			}
		}
		return k
	}
	appendAttempts := func(node int, tag string) int {
		k := 0
		for _, r := range nodes[node].Log.Records() {
			if string(r.Payload) == tag {
				k++
			}
		}
		return k
	}
	wit := func(m *sentMsg, extra map[string]interface{}) map[string]interface{} {
		out := map[string]interface{}{"scenario": s, "placement": placement}
		if m != nil {
			u := []int{}
			for k := range m.unreach {
				u = append(u, k+1)
			}
			sort.Ints(u)
			out["topic"], out["unreachable_nodes"], out["publisher_node"] = m.topic, u, pubNode[m.pub]+1
		}
		for k, v := range extra {
			out[k] = v
		}
		return out
	}
	for _, topic := range c14Topics {
		for pi := range pubs {
			pn := pubNode[pi]
			others := []int{}
			for i := 0; i < nNodes; i++ {
				if i != pn {
					others = append(others, i)
				}
			}
			// every subset of the other nodes unreachable
			for mask := 0; mask < 1<<len(others); mask++ {
				m := &sentMsg{topic: topic, pub: pi, unreach: map[int]bool{}, dests: map[int]bool{}, replyLost: -1, remoteFail: -1}
				for b, o := range others {
					if mask&(1<<b) != 0 {
						m.unreach[o] = true
					}
				}
				for _, su := range subs {
					for _, f := range su.filters {
						if model.Match(f, topic) {
							m.dests[su.node] = true
						}
					}
				}
				for _, g := range ghosts { // a node with a stale matching subscription is a destination too
					if model.Match(g.filter, topic) {
						m.dests[g.node] = true
					}
				}
				m.expectAck = true
				for d := range m.dests {
					if m.unreach[d] {
						m.expectAck = false
					}
				}
				for i := 0; i < nNodes; i++ {
					cl.SetUnreachable(uint64(i+1), m.unreach[i])
					nodes[i].Log.SetFail(nil)
				}
				// in a fifth of the cases the publisher's own log rejects the write
				m.localFails = m.dests[pn] && (seqNo+s)%5 == 0
				if m.localFails {
					nodes[pn].Log.SetFail(func(*packet.Publish, int) error { return errors.New("injected local log failure") })
					m.expectAck = false
					c.Observe("publishes_with_local_log_failure", 1)
				}
				// in a quarter of the cases the reply of one reachable remote destination is lost once: the
				// node has appended the message, the caller sees an error
				cl.LoseReplies(1, 0)
				cl.LoseReplies(2, 0)
				cl.LoseReplies(3, 0)
				if (seqNo+s)%4 == 1 {
					for _, o := range others {
						if m.dests[o] && !m.unreach[o] {
							m.replyLost = o
							cl.LoseReplies(uint64(o+1), 1)
							c.Observe("publishes_with_lost_reply", 1)
							break
						}
					}
				}
				// in a sixth of the cases a reachable remote destination cannot append to its own log: it answers
				// with an error, the publisher is not acknowledged, the other destinations are served
				if m.replyLost < 0 && (seqNo+2*s)%6 == 3 {
					for _, o := range others {
						if m.dests[o] && !m.unreach[o] {
							m.remoteFail = o
							nodes[o].Log.SetFail(func(*packet.Publish, int) error { return errors.New("injected remote log failure") })
							m.expectAck = false
							c.Observe("publishes_with_remote_log_failure", 1)
							break
						}
					}
				}
				seqNo++
				m.tag = fmt.Sprintf("c14-%d-%d", s, seqNo)
				m.id = pubs[pi].NextID()
				rpcBefore := len(cl.RPCLog())
				remoteDests := 0
				for d := range m.dests {
					if d != pn {
						remoteDests++
					}
				}
				from := pubs[pi].NumEvents()
				m.qos = 1 + seqNo%2
				if err := pubs[pi].Send(kit.EncPublish(topic, []byte(m.tag), m.qos, false, false, m.id)); err != nil {
					c.Inconclusive("publisher write failed: " + err.Error())
					return
				}
				if m.qos == 2 {
					if _, _, err := pubs[pi].WaitFor(from, kit.DefaultWait, func(e kit.Event) bool { return e.Pkt.Type == kit.PUBREC && e.Pkt.ID == m.id }); err != nil {
						c.Violation("pubrec-missing", fmt.Sprintf("scenario %d: QoS 2 publish on %q got no PUBREC: %v", s, topic, err), wit(m, nil))
						return
					}
					pubs[pi].Send(kit.EncPubRel(m.id))
				}
				// distribution finished when every expected RPC has returned and the local append is recorded
				if !waitCount(func() int { return len(cl.RPCLog()) - rpcBefore }, remoteDests, 30*time.Second) {
					c.Violation("rpc-missing", fmt.Sprintf("scenario %d: publish on %q from n%d: only %d of %d destination nodes were contacted", s, topic, pn+1, len(cl.RPCLog())-rpcBefore, remoteDests), wit(m, nil))
					return
				}
				if m.dests[pn] && !waitCount(func() int { return appendAttempts(pn, m.tag) }, 1, 30*time.Second) {
					c.Violation("local-append-missing", fmt.Sprintf("scenario %d: publish on %q from n%d was never appended to the publisher node's own log although it hosts a matching subscription", s, topic, pn+1), wit(m, nil))
					return
				}
				if m.expectAck && m.replyLost < 0 {
					ackType := kit.PUBACK
					if m.qos == 2 {
						ackType = kit.PUBCOMP
					}
					if _, _, err := pubs[pi].WaitFor(from, kit.DefaultWait, func(e kit.Event) bool { return e.Pkt.Type == ackType && e.Pkt.ID == m.id }); err != nil {
						c.Violation("ack-withheld", fmt.Sprintf("scenario %d: publish on %q from n%d with every destination reachable (unreachable: %v) was not acknowledged: %v", s, topic, pn+1, m.unreach, err), wit(m, nil))
						return
					}
				}
				sent = append(sent, m)
				c.Observe("publishes", 1)
				if len(m.unreach) > 0 && len(m.dests) > 0 {
					c.Observe("publishes_with_unreachable_nodes", 1)
				}
			}
		}
	}
	// a destination that is slow, not failing: its log takes 2.4 s to accept the message. Every destination
	// is still served and the publisher acknowledged once the slow one is done
	if nNodes == 3 && s%4 == 0 {
		for i := 0; i < nNodes; i++ {
			cl.SetUnreachable(uint64(i+1), false)
			cl.LoseReplies(uint64(i+1), 0)
			nodes[i].Log.SetFail(nil)
		}
		pn := pubNode[0]
		for _, topic := range c14Topics {
			m := &sentMsg{topic: topic, pub: 0, unreach: map[int]bool{}, dests: map[int]bool{}, replyLost: -1, remoteFail: -1, expectAck: true, qos: 1}
			for _, su := range subs {
				for _, f := range su.filters {
					if model.Match(f, topic) {
						m.dests[su.node] = true
					}
				}
			}
			for _, g := range ghosts {
				if model.Match(g.filter, topic) {
					m.dests[g.node] = true
				}
			}
			remote := []int{}
			for d := range m.dests {
				if d != pn {
					remote = append(remote, d)
				}
			}
			if len(remote) < 2 {
				continue
			}
			sort.Ints(remote)
			for _, slow := range remote {
				seqNo++
				mm := *m
				mm.tag = fmt.Sprintf("c14-%d-slow%d", s, seqNo)
				mm.id = pubs[0].NextID()
				nodes[slow].Log.CloseGate()
				from := pubs[0].NumEvents()
				pubs[0].Send(kit.EncPublish(topic, []byte(mm.tag), 1, false, false, mm.id))
				time.Sleep(2400 * time.Millisecond)
				nodes[slow].Log.OpenGate()
				if _, _, err := pubs[0].WaitFor(from, kit.DefaultWait, func(e kit.Event) bool { return e.Pkt.Type == kit.PUBACK && e.Pkt.ID == mm.id }); err != nil {
					c.Violation("ack-withheld:slow-destination", fmt.Sprintf("scenario %d: publish on %q from n%d while n%d's log took 2.4 s to accept it (nothing failed) was not acknowledged: %v", s, topic, pn+1, slow+1, err), wit(&mm, map[string]interface{}{"slow_node": slow + 1}))
					return
				}
				sent = append(sent, &mm)
				c.Observe("publishes_with_slow_destination", 1)
			}
			break
		}
	}
	// barrier: everything reachable again, sentinel to all
	for i := 0; i < nNodes; i++ {
		cl.SetUnreachable(uint64(i+1), false)
		cl.LoseReplies(uint64(i+1), 0)
		nodes[i].Log.SetFail(nil)
	}
	if acked, err := pubs[0].Publish("zz/c14", []byte("END"), 1, false, kit.DefaultWait); !acked {
		c.Inconclusive(fmt.Sprintf("sentinel not acknowledged: %v", err))
		return
	}
	for i, su := range subs {
		if _, _, err := su.cl.WaitFor(0, 60*time.Second, func(e kit.Event) bool { return e.Pkt.Type == kit.PUBLISH && e.Pkt.Topic == "zz/c14" }); err != nil {
			c.Inconclusive(fmt.Sprintf("scenario %d: subscriber %d never saw the sentinel: %v", s, i, err))
			return
		}
	}
	// a subscription removed between two publishes on one topic: the second is no longer written to it
	var left *c14Sub
	leftTopic, leftFilter := "", ""
	// preferred: a filter that a later subscriber holds too (the entry that goes away is stored before one that stays)
	for pass := 0; pass < 2 && left == nil; pass++ {
		for si, su := range subs {
			for _, f := range su.filters {
				for _, t := range c14Topics {
					if left == nil && model.Match(f, t) {
						only := true
						for _, g := range su.filters {
							if g != f && model.Match(g, t) {
								only = false
							}
						}
						sharedLater := false
						for _, other := range subs[si+1:] {
							for _, g := range other.filters {
								if g == f {
									sharedLater = true
								}
							}
						}
						if only && (sharedLater || pass == 1) {
							left, leftTopic, leftFilter = su, t, f
							if sharedLater {
								c.Observe("unsubscribed_filter_shared_with_a_later_subscriber", 1)
							}
						}
					}
				}
			}
		}
	}
	leftTags := []string{}
	if left != nil {
		for k := 0; k < 3; k++ {
			tag := fmt.Sprintf("c14-%d-burst%d", s, k)
			if acked, err := pubs[0].Publish(leftTopic, []byte(tag), 1, false, kit.DefaultWait); !acked {
				c.Inconclusive(fmt.Sprintf("burst publish not acknowledged: %v", err))
				return
			}
			if k == 0 {
				if _, _, err := left.cl.WaitFor(0, 30*time.Second, func(e kit.Event) bool { return e.Pkt.Type == kit.PUBLISH && string(e.Pkt.Payload) == tag }); err != nil {
					c.Inconclusive("burst publish not delivered: " + err.Error())
					return
				}
				if err := left.cl.Unsubscribe([]string{leftFilter}); err != nil {
					c.Inconclusive("unsubscribe: " + err.Error())
					return
				}
				cl.Quiesce()
			} else {
				leftTags = append(leftTags, tag)
			}
		}
	}
	if left != nil {
		if acked, err := pubs[0].Publish("zz/c14", []byte("END2"), 1, false, kit.DefaultWait); !acked {
			c.Inconclusive(fmt.Sprintf("sentinel not acknowledged: %v", err))
			return
		}
		for i, su := range subs {
			if _, _, err := su.cl.WaitFor(0, 60*time.Second, func(e kit.Event) bool {
				return e.Pkt.Type == kit.PUBLISH && e.Pkt.Topic == "zz/c14" && string(e.Pkt.Payload) == "END2"
			}); err != nil {
				c.Inconclusive(fmt.Sprintf("scenario %d: subscriber %d never saw the second sentinel: %v", s, i, err))
				return
			}
		}
	}
	time.Sleep(100 * time.Millisecond) // late (wrong) acknowledgements get a chance to show up
	if left != nil {
		for _, p := range left.cl.Publishes() {
			for _, tag := range leftTags {
				if string(p.Payload) == tag {
					c.Violation("delivery-after-unsubscribe", fmt.Sprintf("scenario %d: a subscriber on n%d unsubscribed %q (UNSUBACK received, gossip settled) between two publishes on %q and still received the later one", s, left.node+1, leftFilter, leftTopic),
						wit(nil, map[string]interface{}{"filter": leftFilter, "topic": leftTopic, "tag": tag}))
				}
			}
		}
		// everybody else still gets the later publishes, one copy per matching filter
		for si, su := range subs {
			if su == left {
				continue
			}
			want := 0
			for _, f := range su.filters {
				if model.Match(f, leftTopic) {
					want++
				}
			}
			for _, tag := range leftTags {
				got := 0
				for _, p := range su.cl.Publishes() {
					if string(p.Payload) == tag {
						got++
					}
				}
				c.Observe("deliveries_compared", 1)
				if got != want {
					c.Violation("delivery-after-other-unsubscribed", fmt.Sprintf("scenario %d: after a subscriber on n%d unsubscribed %q, subscriber %d on n%d with filters %v received %d copies of a publish on %q, want %d", s, left.node+1, leftFilter, si, su.node+1, su.filters, got, leftTopic, want),
						wit(nil, map[string]interface{}{"filter": leftFilter, "topic": leftTopic, "tag": tag, "subscriber": si, "received": got, "expected": want}))
				}
			}
		}
		c.Observe("unsubscribe_between_same_topic_publishes", 1)
	}
	// verdicts
	for _, m := range sent {
		pn := pubNode[m.pub]
		for i := 0; i < nNodes; i++ {
			got := appendCount(i, m.tag)
			want := 0
			if m.dests[i] && (i == pn || !m.unreach[i]) {
				want = 1
			}
			if i == pn && m.localFails {
				want = 0 // offered, rejected
			}
			if i == m.remoteFail {
				want = 0 // offered, rejected
			}
			c.Observe("append_counts_compared", 1)
			if got != want {
				kind := "missing"
				if got > want {
					kind = "extra"
				}
				c.Violation("append-"+kind, fmt.Sprintf("scenario %d: publish on %q from n%d (unreachable %v): appended %d time(s) to n%d's log, want %d (destinations %v)", s, m.topic, pn+1, keys1(m.unreach), got, i+1, want, keys1(m.dests)),
					wit(m, map[string]interface{}{"node": i + 1, "appends": got, "expected": want}))
			}
		}
		acks := 0
		for _, e := range pubs[m.pub].Events() {
			if (e.Pkt.Type == kit.PUBACK || e.Pkt.Type == kit.PUBCOMP) && e.Pkt.ID == m.id {
				acks++
			}
		}
		if m.replyLost >= 0 {
			// whether the publisher is acknowledged after a lost reply is not judged; that the message is
			// appended once is
		} else if !m.expectAck && acks > 0 {
			c.Violation("ack-despite-unreachable-destination", fmt.Sprintf("scenario %d: publish on %q from n%d was acknowledged although destination node(s) %v were unreachable (local log failing: %v; remote log failing on node: %d)", s, m.topic, pn+1, keys1(m.unreach), m.localFails, m.remoteFail+1), wit(m, nil))
		}
		if m.replyLost < 0 && m.expectAck && acks != 1 {
			c.Violation("ack-count", fmt.Sprintf("scenario %d: publish on %q got %d acknowledgements", s, m.topic, acks), wit(m, nil))
		}
		for si, su := range subs {
			want := 0
			if (su.node == pn && !m.localFails) || (su.node != pn && !m.unreach[su.node] && su.node != m.remoteFail) {
				for _, f := range su.filters {
					if model.Match(f, m.topic) {
						want++
					}
				}
			}
			got := 0
			for _, p := range su.cl.Publishes() {
				if string(p.Payload) == m.tag {
					got++
					if p.Topic != m.topic {
						c.Violation("topic-changed", fmt.Sprintf("scenario %d: %s delivered on %q", s, m.tag, p.Topic), wit(m, nil))
					}
				}
			}
			c.Observe("deliveries_compared", 1)
			if got != want {
				kind := "missing"
				if got > want {
					kind = "extra"
				}
				c.Violation("delivery-"+kind, fmt.Sprintf("scenario %d: subscriber %d on n%d with filters %v received %d copies of the publish on %q from n%d (unreachable %v), want %d", s, si, su.node+1, su.filters, got, m.topic, pn+1, keys1(m.unreach), want),
					wit(m, map[string]interface{}{"subscriber": si, "received": got, "expected": want}))
			}
		}
		c.Case(fmt.Sprintf("%v|%s|%d|%v", placement, m.topic, m.pub, keys1(m.unreach)), len(m.dests) > 0)
	}
	if s < 2 {
		c.Sample(map[string]interface{}{"scenario": s, "placement": placement, "topics": c14Topics, "cases": len(sent)})
	}
}

func keys1(m map[int]bool) []int {
	out := []int{}
	for k, v := range m {
		if v {
			out = append(out, k+1)
		}
	}
	sort.Ints(out)
	return out
}

func runC14(c *fw.Ctx) {
	c.Level = "fault_enumeration"
	c.Rule = "seeded placements of 1-2 publishers and 1-4 subscribers (1-2 filters each) over 2-3 broker nodes connected by real gRPC (bufconn) with manual gossip; for every topic of the list, every publisher and EVERY subset of the other nodes made unreachable at the RPC boundary, one tagged publish (QoS 1 and QoS 2 alternating, full handshake). Observed: Append calls per node and tag (recording log), RPC calls, PUBACKs, packets at every subscriber after a sentinel barrier. Oracle: appends(tag,node) = 1 iff the node hosts a matching subscription and is reachable (or is the publisher's node), else 0; one delivery per matching filter from the subscriber's own node; acknowledgement withheld iff an unreachable node is a destination; in a quarter of the cases the reply of one reachable destination is lost once after the node appended (still exactly one append and one delivery; the acknowledgement is not judged); in a quarter of the 3-node placements one destination's log takes 2.4 s to accept a message (nothing fails: every destination is served, the publisher acknowledged); unreachable peers also appear as a connection behind which nobody listens; epilogue: a subscriber unsubscribes between publishes on one topic and must not receive the later ones. distinct = (placement, topic, publisher, unreachable subset); non-trivial = the publish has >=1 destination node"
	c.Assume("subscriptions are gossiped to every node before publishing (gossip barrier), so 'known to the publishing node' = all")
	c.Assume("a wrongly sent acknowledgement is looked for until the end of the scenario (sentinel barrier + 100 ms)")
	n := c.Pick(40, 400)
	sem := make(chan struct{}, 8)
	var wg sync.WaitGroup
	for s := 0; s < n; s++ {
		wg.Add(1)
		sem <- struct{}{}
		go func(s int) {
			defer wg.Done()
			defer func() { <-sem }()
			c14Scenario(c, s)
		}(s)
	}
	wg.Wait()
	c.Floor("publishes_with_unreachable_nodes", 20)
	c.Floor("deliveries_compared", 100)
	_ = strings.Join
}
