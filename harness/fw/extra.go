package fw

import (
	"crypto/sha1"
	"encoding/hex"
	"encoding/json"
	"fmt"
	"os"
	"path/filepath"
)

// Aux holds auxiliary child entry points (wv aux <name> args...).
var Aux = map[string]func(args []string) int{}

// ReportExtra is used by the parent for violations it detects itself (child
// crash, race reports). Returns the lines to print and whether the finding is
// listed as known.
func ReportExtra(prop, tier string, seed int64, key, what string, witness interface{}) ([]string, bool) {
	for _, k := range loadKnown() {
		if k.prop == prop && k.key == key {
			return []string{fmt.Sprintf("KNOWN-FINDING: property=%s key=%s %s", prop, key, k.what)}, true
		}
	}
	dir := filepath.Join(Root, "replays")
	os.MkdirAll(dir, 0755)
	h := sha1.Sum([]byte(key))
	path := filepath.Join(dir, fmt.Sprintf("%s-%s-%d-%s.json", prop, tier, seed, hex.EncodeToString(h[:4])))
	buf, _ := json.MarshalIndent(map[string]interface{}{
		"property": prop, "tier": tier, "seed": seed, "key": key, "what": what, "witness": witness,
	}, "", " ")
	os.WriteFile(path, buf, 0644)
	return []string{
		fmt.Sprintf("VIOLATION property=%s replay=%s", prop, path),
		fmt.Sprintf("  key=%s: %s", key, what),
	}, false
}

// PatchEvidence merges extra coverage keys into an evidence file written by
// the child and adds to its violation count.
func PatchEvidence(prop string, cov map[string]interface{}, addViolations int) {
	path := filepath.Join(Root, "evidence", prop+".json")
	buf, err := os.ReadFile(path)
	if err != nil {
		return
	}
	var ev map[string]interface{}
	if json.Unmarshal(buf, &ev) != nil {
		return
	}
	c, _ := ev["coverage"].(map[string]interface{})
	if c == nil {
		c = map[string]interface{}{}
	}
	for k, v := range cov {
		c[k] = v
	}
	if addViolations > 0 {
		c["verdict"] = "violated"
	}
	ev["coverage"] = c
	if v, ok := ev["violations"].(float64); ok {
		ev["violations"] = int(v) + addViolations
	} else {
		ev["violations"] = addViolations
	}
	WriteEvidence(prop, ev)
}

// EnsureEvidence writes a minimal evidence file when the child produced none
// (crash / watchdog), so that the run is still documented.
func EnsureEvidence(prop, tier string, seed int64, wall float64, violations int) {
	path := filepath.Join(Root, "evidence", prop+".json")
	if _, err := os.Stat(path); err == nil {
		return
	}
	WriteEvidence(prop, map[string]interface{}{
		"property_id": prop, "tier": tier, "seed": seed, "level": "exploration",
		"coverage": map[string]interface{}{
			"evaluations": 0, "distinct_nontrivial": 0,
			"rule":    "the child process ended before reporting coverage",
			"samples": []interface{}{"(child ended early; see replay file)"},
			"verdict": map[bool]string{true: "violated", false: "inconclusive"}[violations > 0],
		},
		"wall_s": wall, "violations": violations,
	})
}
