// Package fw is the verdict / evidence / known-findings plumbing shared by all
// checks. A check is a function func(*Ctx); it reports cases, observations and
// violations; Finish turns them into the evidence file, replay files, the
// VIOLATION / KNOWN-FINDING lines and the exit code.
package fw

import (
	"bufio"
	"crypto/sha1"
	"encoding/hex"
	"encoding/json"
	"fmt"
	"math/rand"
	"os"
	"path/filepath"
	"sort"
	"strings"
	"sync"
	"time"
)

// Root of the verification tree (directory holding MANIFEST.json).
var Root = func() string {
	if r := os.Getenv("VERIF_ROOT"); r != "" {
		return r
	}
	return "/verif"
}()

type violation struct {
	Key     string      `json:"key"`
	What    string      `json:"what"`
	Witness interface{} `json:"witness"`
	Count   int         `json:"count"`
}

// Ctx is handed to a check.
type Ctx struct {
	Prop  string
	Tier  string
	Seed  int64
	Level string // evidence level
	Rule  string
	Rng   *rand.Rand

	mu           sync.Mutex
	start        time.Time
	evaluations  int64
	bulkDistinct int64
	distinct     map[[8]byte]struct{}
	samples      []interface{}
	maxSamples   int
	counters     map[string]int64
	sets         map[string]map[string]struct{}
	violations   map[string]*violation
	order        []string
	inconclusive []string
	noVerdict    []string
	floors       map[string]int64
	assumptions  []string
	exhaustive   *bool
	extra        map[string]interface{}
	replayOnly   string
}

func NewCtx(prop, tier string, seed int64) *Ctx {
	return &Ctx{
		Prop: prop, Tier: tier, Seed: seed, Level: "exploration",
		Rng:        rand.New(rand.NewSource(seed)),
		start:      time.Now(),
		distinct:   map[[8]byte]struct{}{},
		maxSamples: 6,
		counters:   map[string]int64{},
		sets:       map[string]map[string]struct{}{},
		violations: map[string]*violation{},
		floors:     map[string]int64{},
		extra:      map[string]interface{}{},
	}
}

func (c *Ctx) Quick() bool { return c.Tier != "thorough" }

// Pick returns q for the quick tier and t for the thorough tier.
func (c *Ctx) Pick(q, t int) int {
	if c.Quick() {
		return q
	}
	return t
}

// SubRng returns a deterministic PRNG derived from the seed and a label, so
// that parallel workers and separate parts of a check do not share a stream.
func (c *Ctx) SubRng(label string, n int) *rand.Rand {
	h := sha1.Sum([]byte(fmt.Sprintf("%d/%s/%d", c.Seed, label, n)))
	var s int64
	for i := 0; i < 8; i++ {
		s = s<<8 | int64(h[i])
	}
	return rand.New(rand.NewSource(s))
}

// Case records one executed case. key identifies the case for the distinct
// count; nontrivial says whether it satisfies the check's non-triviality rule.
func (c *Ctx) Case(key string, nontrivial bool) {
	c.mu.Lock()
	c.evaluations++
	if nontrivial {
		h := sha1.Sum([]byte(key))
		var k [8]byte
		copy(k[:], h[:8])
		c.distinct[k] = struct{}{}
	}
	c.mu.Unlock()
}

// CaseBulk records n executed cases of which d are distinct and non-trivial by
// construction (complete enumerations, where hashing every case would only
// cost memory). The enumeration itself guarantees distinctness.
func (c *Ctx) CaseBulk(n, d int) {
	c.mu.Lock()
	c.evaluations += int64(n)
	c.bulkDistinct += int64(d)
	c.mu.Unlock()
}

// Sample keeps a few actual cases for the evidence file.
func (c *Ctx) Sample(v interface{}) {
	c.mu.Lock()
	if len(c.samples) < c.maxSamples {
		c.samples = append(c.samples, v)
	}
	c.mu.Unlock()
}

// WantSample reports whether another sample is still wanted (cheap guard for
// building expensive sample values).
func (c *Ctx) WantSample() bool {
	c.mu.Lock()
	defer c.mu.Unlock()
	return len(c.samples) < c.maxSamples
}

// Observe adds n to a named counter reported in the evidence.
func (c *Ctx) Observe(name string, n int) {
	c.mu.Lock()
	c.counters[name] += int64(n)
	c.mu.Unlock()
}

// ObserveDistinct adds a value to a named set whose size is reported.
func (c *Ctx) ObserveDistinct(name, value string) {
	c.mu.Lock()
	s := c.sets[name]
	if s == nil {
		s = map[string]struct{}{}
		c.sets[name] = s
	}
	if len(s) < 2000000 {
		s[value] = struct{}{}
	}
	c.mu.Unlock()
}

func (c *Ctx) Counter(name string) int64 {
	c.mu.Lock()
	defer c.mu.Unlock()
	return c.counters[name]
}

// Floor states that the named counter must reach min, otherwise the run is
// inconclusive ("a run that observed nothing fails").
func (c *Ctx) Floor(name string, min int) {
	c.mu.Lock()
	c.floors[name] = int64(min)
	c.mu.Unlock()
}

func (c *Ctx) Assume(s string) {
	c.mu.Lock()
	c.assumptions = append(c.assumptions, s)
	c.mu.Unlock()
}

func (c *Ctx) Exhaustive(b bool) { c.mu.Lock(); c.exhaustive = &b; c.mu.Unlock() }

func (c *Ctx) Extra(k string, v interface{}) { c.mu.Lock(); c.extra[k] = v; c.mu.Unlock() }

// Violation records a violation. key is the specific, witness-derived key used
// for known-findings matching; the first witness per key is kept.
func (c *Ctx) Violation(key, what string, witness interface{}) {
	c.mu.Lock()
	defer c.mu.Unlock()
	v := c.violations[key]
	if v == nil {
		v = &violation{Key: key, What: what, Witness: witness}
		c.violations[key] = v
		c.order = append(c.order, key)
	}
	v.Count++
}

// ViolationSummaries returns "key: what" for every recorded violation.
// Guard runs f and waits for it. Work that takes milliseconds gets a bound of minutes: if f has still
// not returned after d, the operation described by what() is reported as blocked (a call that never
// returns never takes effect), Guard returns false and the goroutine is abandoned - the caller should
// stop using whatever f was working on.
func (c *Ctx) Guard(key string, d time.Duration, what func() string, f func()) bool {
	done := make(chan struct{})
	go func() {
		defer close(done)
		f()
	}()
	select {
	case <-done:
		return true
	case <-time.After(d):
		c.Violation("blocked:"+key, fmt.Sprintf("%s: no progress for %s; last operation started: %s", key, d, what()), map[string]interface{}{"last_operation": what()})
		return false
	}
}

func (c *Ctx) ViolationSummaries() []string {
	c.mu.Lock()
	defer c.mu.Unlock()
	out := []string{}
	for _, k := range c.order {
		out = append(out, k+": "+Short(c.violations[k].What, 400))
	}
	return out
}

func (c *Ctx) Violations() int {
	c.mu.Lock()
	defer c.mu.Unlock()
	return len(c.violations)
}

// Inconclusive marks the run inconclusive (watchdog, hook never reached, ...).
func (c *Ctx) Inconclusive(reason string) {
	c.mu.Lock()
	if len(c.inconclusive) < 20 {
		c.inconclusive = append(c.inconclusive, reason)
	}
	c.mu.Unlock()
}

type known struct {
	prop, key, what string
}

func loadKnown() []known {
	f, err := os.Open(filepath.Join(Root, "known_findings.txt"))
	if err != nil {
		return nil
	}
	defer f.Close()
	var out []known
	sc := bufio.NewScanner(f)
	for sc.Scan() {
		line := strings.TrimSpace(sc.Text())
		if !strings.HasPrefix(line, "known:") {
			continue
		}
		fields := strings.Fields(strings.TrimPrefix(line, "known:"))
		k := known{}
		rest := []string{}
		for _, f := range fields {
			switch {
			case strings.HasPrefix(f, "property=") && k.prop == "":
				k.prop = strings.TrimPrefix(f, "property=")
			case strings.HasPrefix(f, "key=") && k.key == "":
				k.key = strings.TrimPrefix(f, "key=")
			default:
				rest = append(rest, f)
			}
		}
		k.what = strings.Join(rest, " ")
		if k.prop != "" && k.key != "" {
			out = append(out, k)
		}
	}
	return out
}

// Result is what the child hands back to the parent.
type Result struct {
	Verdict    string   `json:"verdict"` // held | violated | inconclusive
	Lines      []string `json:"lines"`
	ExitCode   int      `json:"exit_code"`
	Violations int      `json:"violations"`
}

// Finish writes evidence and replay files and returns the result.
func (c *Ctx) Finish() Result {
	c.mu.Lock()
	defer c.mu.Unlock()
	res := Result{Verdict: "held"}
	kn := loadKnown()
	unknown := 0
	knownHit := 0
	for _, key := range c.order {
		v := c.violations[key]
		matched := false
		for _, k := range kn {
			if k.prop == c.Prop && k.key == key {
				res.Lines = append(res.Lines, fmt.Sprintf("KNOWN-FINDING: property=%s key=%s %s", c.Prop, key, k.what))
				matched = true
				knownHit++
				break
			}
		}
		if matched {
			continue
		}
		unknown++
		path := c.writeReplay(v)
		res.Lines = append(res.Lines, fmt.Sprintf("VIOLATION property=%s replay=%s", c.Prop, path))
		res.Lines = append(res.Lines, fmt.Sprintf("  key=%s count=%d: %s", v.Key, v.Count, v.What))
	}
	// Scenario-level "no verdict" reports (a barrier that was not reached, a connect that failed on a
	// loaded machine, ...) are tolerated up to two per run: they are listed in the evidence and the
	// run is judged on everything else. More than that, or a floor that is not met, makes the whole
	// run inconclusive.
	hard := []string{}
	for name, min := range c.floors {
		if c.counters[name] < min && unknown == 0 {
			hard = append(hard, fmt.Sprintf("observed %s=%d, need at least %d", name, c.counters[name], min))
		}
	}
	soft := c.inconclusive
	c.noVerdict = append([]string{}, soft...)
	if len(soft) <= 2 {
		c.inconclusive = hard
	} else {
		c.inconclusive = append(soft, hard...)
	}
	switch {
	case unknown > 0:
		res.Verdict = "violated"
		res.ExitCode = 1
	case len(c.inconclusive) > 0:
		res.Verdict = "inconclusive"
		res.ExitCode = 3
		for _, r := range c.inconclusive {
			res.Lines = append(res.Lines, fmt.Sprintf("INCONCLUSIVE property=%s %s", c.Prop, r))
		}
	}
	if res.Verdict != "inconclusive" {
		for _, r := range c.noVerdict {
			res.Lines = append(res.Lines, fmt.Sprintf("NO-VERDICT property=%s (tolerated, %d in this run) %s", c.Prop, len(c.noVerdict), r))
		}
	}
	res.Violations = unknown
	c.writeEvidence(res, unknown, knownHit)
	res.Lines = append(res.Lines, fmt.Sprintf("%s property=%s tier=%s seed=%d evaluations=%d distinct_nontrivial=%d wall_s=%.1f",
		strings.ToUpper(res.Verdict), c.Prop, c.Tier, c.Seed, c.evaluations, int64(len(c.distinct))+c.bulkDistinct, time.Since(c.start).Seconds()))
	return res
}

func (c *Ctx) writeReplay(v *violation) string {
	dir := filepath.Join(Root, "replays")
	os.MkdirAll(dir, 0755)
	h := sha1.Sum([]byte(v.Key))
	name := fmt.Sprintf("%s-%s-%d-%s.json", c.Prop, c.Tier, c.Seed, hex.EncodeToString(h[:4]))
	path := filepath.Join(dir, name)
	buf, err := json.MarshalIndent(map[string]interface{}{
		"property": c.Prop, "tier": c.Tier, "seed": c.Seed,
		"key": v.Key, "what": v.What, "count": v.Count, "witness": v.Witness,
	}, "", " ")
	if err != nil {
		buf = []byte(fmt.Sprintf(`{"property":%q,"tier":%q,"seed":%d,"key":%q,"what":%q}`, c.Prop, c.Tier, c.Seed, v.Key, v.What))
	}
	os.WriteFile(path, buf, 0644)
	return path
}

func (c *Ctx) writeEvidence(res Result, unknown, knownHit int) {
	cov := map[string]interface{}{}
	for k, v := range c.extra {
		cov[k] = v
	}
	obs := map[string]int64{}
	for k, v := range c.counters {
		obs[k] = v
	}
	for k, s := range c.sets {
		obs["distinct_"+k] = int64(len(s))
	}
	cov["observed"] = obs
	cov["evaluations"] = c.evaluations
	cov["distinct_nontrivial"] = int64(len(c.distinct)) + c.bulkDistinct
	cov["rule"] = c.Rule
	samples := c.samples
	if len(samples) == 0 {
		samples = []interface{}{"(no case was executed)"}
	}
	cov["samples"] = samples
	if c.exhaustive != nil {
		cov["exhaustive"] = *c.exhaustive
	}
	cov["verdict"] = res.Verdict
	if len(c.inconclusive) > 0 {
		cov["inconclusive_reasons"] = c.inconclusive
	}
	cov["scenarios_without_verdict"] = len(c.noVerdict)
	if len(c.noVerdict) > 0 {
		cov["scenarios_without_verdict_reasons"] = c.noVerdict
	}
	if knownHit > 0 {
		cov["known_findings_reproduced"] = knownHit
	}
	vkeys := []string{}
	for _, k := range c.order {
		vkeys = append(vkeys, k)
	}
	sort.Strings(vkeys)
	if len(vkeys) > 0 {
		cov["violation_keys"] = vkeys
	}
	ev := map[string]interface{}{
		"property_id": c.Prop,
		"tier":        c.Tier,
		"seed":        c.Seed,
		"level":       c.Level,
		"coverage":    cov,
		"assumptions": append([]string{}, c.assumptions...),
		"wall_s":      time.Since(c.start).Seconds(),
		"violations":  unknown,
	}
	WriteEvidence(c.Prop, ev)
}

// WriteEvidence writes /verif/evidence/<id>.json atomically.
func WriteEvidence(prop string, ev map[string]interface{}) {
	dir := filepath.Join(Root, "evidence")
	os.MkdirAll(dir, 0755)
	buf, err := json.MarshalIndent(ev, "", " ")
	if err != nil {
		fmt.Fprintln(os.Stderr, "evidence marshal:", err)
		return
	}
	tmp := filepath.Join(dir, fmt.Sprintf(".%s.%d.tmp", prop, os.Getpid()))
	if err := os.WriteFile(tmp, buf, 0644); err == nil {
		os.Rename(tmp, filepath.Join(dir, prop+".json"))
	}
}

// LogCase writes the case about to be run to stderr with a single unbuffered
// write so that a crash is attributable.
func LogCase(format string, a ...interface{}) {
	s := "CASE " + fmt.Sprintf(format, a...) + "\n"
	os.Stderr.WriteString(s)
}

// Check registry.
type CheckFunc func(*Ctx)

type Spec struct {
	Run  CheckFunc
	Race bool // needs the -race binary
	// Watchdog for the child, per tier.
	QuickTimeout, ThoroughTimeout time.Duration
}

var Registry = map[string]Spec{}

func Register(id string, s Spec) { Registry[id] = s }

// Short returns a bounded string for witnesses.
func Short(s string, n int) string {
	if len(s) <= n {
		return s
	}
	return s[:n] + "..."
}
