// Package model holds the reference models (oracles). They are written from
// the MQTT 3.1.1 specification and from the property statements, not from
// wasp's code.
package model

import "strings"

// Levels splits a topic name or filter into its levels. Empty levels are
// levels ("a//b" has three, "a/" has two, "/a" has two).
func Levels(s string) []string { return strings.Split(s, "/") }

// ValidFilter reports whether f is a well-formed MQTT 3.1.1 topic filter:
// non-empty, '#' only as the whole last level, '+' only as a whole level.
func ValidFilter(f string) bool {
	if f == "" {
		return false
	}
	ls := Levels(f)
	for i, l := range ls {
		if strings.Contains(l, "#") && (l != "#" || i != len(ls)-1) {
			return false
		}
		if strings.Contains(l, "+") && l != "+" {
			return false
		}
	}
	return true
}

// ValidTopic reports whether t is a well-formed topic name (no wildcards).
func ValidTopic(t string) bool {
	return t != "" && !strings.ContainsAny(t, "+#")
}

// Match implements MQTT 3.1.1 section 4.7 on level arrays: '+' matches exactly
// one level, a trailing '#' matches the parent level and everything below it.
// ('$'-topics are outside the alphabets used by the checks.)
func Match(filter, topic string) bool {
	f := Levels(filter)
	t := Levels(topic)
	for i, fl := range f {
		if fl == "#" {
			// matches parent (i == len(t)) and any number of further levels
			return i <= len(t)
		}
		if i >= len(t) {
			return false
		}
		if fl != "+" && fl != t[i] {
			return false
		}
	}
	return len(f) == len(t)
}
