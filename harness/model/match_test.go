package model

import "testing"

func TestMatch(t *testing.T) {
	cases := []struct {
		f, t string
		want bool
	}{
		{"a/#", "a", true}, {"a/#", "a/b", true}, {"a/#", "a/b/c", true}, {"a/#", "b", false},
		{"#", "a", true}, {"#", "a/b", true}, {"+", "a", true}, {"+", "a/b", false}, {"+/+", "a/b", true},
		{"a/+", "a", false}, {"a/+", "a/", true}, {"a/+", "a/b", true}, {"a", "a/", false}, {"a/", "a", false},
		{"a//b", "a//b", true}, {"a//b", "a", false}, {"a/+/b", "a//b", true}, {"+/#", "a", true}, {"+/#", "", true},
		{"sport/tennis/player1/#", "sport/tennis/player1", true}, {"sport/+", "sport", false}, {"sport/+", "sport/", true},
		{"+/+", "/finance", true}, {"/+", "/finance", true}, {"+", "/finance", false},
	}
	for _, c := range cases {
		if got := Match(c.f, c.t); got != c.want {
			t.Errorf("Match(%q,%q)=%v want %v", c.f, c.t, got, c.want)
		}
	}
}
