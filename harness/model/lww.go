package model

import (
	"fmt"
	"sort"

	"github.com/vx-labs/wasp/v4/wasp/api"
)

// LWW is the reference last-writer-wins element set for the three kinds of
// replicated entries. Per key the update with the greatest timestamp
// max(LastAdded, LastDeleted) wins; an entry is visible iff it is an add
// (LastAdded > LastDeleted). With distinct timestamps per key the result does
// not depend on the order, repetition or batching of updates.
type LWW struct {
	Sessions map[string]*api.SessionMetadatas
	Subs     map[string]*api.Subscription
	Topics   map[string]*api.RetainedMessage
	// Ties counts updates that carried exactly the timestamp of a different
	// update already applied to the same key: "greatest timestamp" is then
	// undefined and no verdict can be drawn for that key.
	Ties int
}

func NewLWW() *LWW {
	return &LWW{Sessions: map[string]*api.SessionMetadatas{}, Subs: map[string]*api.Subscription{}, Topics: map[string]*api.RetainedMessage{}}
}

func stamp(added, deleted int64) int64 {
	if added > deleted {
		return added
	}
	return deleted
}

func (m *LWW) ApplySession(s *api.SessionMetadatas) {
	old, ok := m.Sessions[s.SessionID]
	if ok && stamp(old.LastAdded, old.LastDeleted) == stamp(s.LastAdded, s.LastDeleted) && visS(old) != visS(s) {
		m.Ties++
	}
	if !ok || stamp(old.LastAdded, old.LastDeleted) < stamp(s.LastAdded, s.LastDeleted) {
		m.Sessions[s.SessionID] = s
	}
}
func SubKey(s *api.Subscription) string { return s.SessionID + "\x00" + string(s.Pattern) }
func (m *LWW) ApplySub(s *api.Subscription) {
	k := SubKey(s)
	old, ok := m.Subs[k]
	if ok && stamp(old.LastAdded, old.LastDeleted) == stamp(s.LastAdded, s.LastDeleted) && visSub(old) != visSub(s) {
		m.Ties++
	}
	if !ok || stamp(old.LastAdded, old.LastDeleted) < stamp(s.LastAdded, s.LastDeleted) {
		m.Subs[k] = s
	}
}
func (m *LWW) ApplyTopic(t *api.RetainedMessage) {
	k := string(t.Publish.Topic)
	old, ok := m.Topics[k]
	if ok && stamp(old.LastAdded, old.LastDeleted) == stamp(t.LastAdded, t.LastDeleted) && visT(old) != visT(t) {
		m.Ties++
	}
	if !ok || stamp(old.LastAdded, old.LastDeleted) < stamp(t.LastAdded, t.LastDeleted) {
		m.Topics[k] = t
	}
}

func (m *LWW) ApplyEvent(ev *api.StateBroadcastEvent) {
	for _, s := range ev.SessionMetadatas {
		m.ApplySession(s)
	}
	for _, s := range ev.Subscriptions {
		m.ApplySub(s)
	}
	for _, t := range ev.RetainedMessages {
		m.ApplyTopic(t)
	}
}

// Merge folds every entry of o (tombstones included) into m.
func (m *LWW) Merge(o *LWW) {
	for _, s := range o.Sessions {
		m.ApplySession(s)
	}
	for _, s := range o.Subs {
		m.ApplySub(s)
	}
	for _, t := range o.Topics {
		m.ApplyTopic(t)
	}
}

func (m *LWW) Clone() *LWW {
	n := NewLWW()
	n.Merge(m)
	return n
}

// Visible returns the formatted visible entries using the given formatters.
func (m *LWW) Visible(fs func(*api.SessionMetadatas) string, fsub func(*api.Subscription) string, ft func(*api.RetainedMessage) string) (sessions, subs, topics []string) {
	sessions, subs, topics = []string{}, []string{}, []string{}
	for _, s := range m.Sessions {
		if s.LastAdded > 0 && s.LastAdded > s.LastDeleted {
			sessions = append(sessions, fs(s))
		}
	}
	for _, s := range m.Subs {
		if s.LastAdded > 0 && s.LastAdded > s.LastDeleted {
			subs = append(subs, fsub(s))
		}
	}
	for _, t := range m.Topics {
		if t.LastAdded > 0 && t.LastAdded > t.LastDeleted {
			topics = append(topics, ft(t))
		}
	}
	sort.Strings(sessions)
	sort.Strings(subs)
	sort.Strings(topics)
	return
}

// Formatting of visible entries: identity, value fields and LastAdded.
func FmtSession(s *api.SessionMetadatas) string {
	lwt := "-"
	if s.LWT != nil {
		lwt = fmt.Sprintf("%s=%q", s.LWT.Topic, s.LWT.Payload)
	}
	return fmt.Sprintf("%s client=%s peer=%d mp=%s at=%d lwt=%s added=%d", s.SessionID, s.ClientID, s.Peer, s.MountPoint, s.ConnectedAt, lwt, s.LastAdded)
}
func FmtSub(s *api.Subscription) string {
	return fmt.Sprintf("%s %s peer=%d qos=%d added=%d", s.SessionID, s.Pattern, s.Peer, s.QoS, s.LastAdded)
}
func FmtTopic(m *api.RetainedMessage) string {
	q := int32(0)
	if m.Publish.Header != nil {
		q = m.Publish.Header.Qos
	}
	return fmt.Sprintf("%s=%q qos=%d added=%d", m.Publish.Topic, m.Publish.Payload, q, m.LastAdded)
}

func visS(s *api.SessionMetadatas) string {
	if s.LastAdded > 0 && s.LastAdded > s.LastDeleted {
		return FmtSession(s)
	}
	return ""
}
func visSub(s *api.Subscription) string {
	if s.LastAdded > 0 && s.LastAdded > s.LastDeleted {
		return FmtSub(s)
	}
	return ""
}
func visT(t *api.RetainedMessage) string {
	if t.LastAdded > 0 && t.LastAdded > t.LastDeleted {
		return FmtTopic(t)
	}
	return ""
}
