// wv is the runner for the wasp runtime-monitoring checks.
//
//	wv check <id> <quick|thorough>    parent: runs the check in a child process
//	wv child <id> <quick|thorough>    child: executes the check in-process
//	wv replay <path>                  re-runs the case recorded in a replay file
//	wv list
package main

import (
	"encoding/json"
	"fmt"
	"os"
	"os/exec"
	"path/filepath"
	"regexp"
	"sort"
	"strconv"
	"strings"
	"syscall"
	"time"

	_ "wv/checks"
	"wv/fw"
)

func main() {
	if len(os.Args) < 2 {
		usage()
	}
	switch os.Args[1] {
	case "check":
		if len(os.Args) < 4 {
			usage()
		}
		os.Exit(parent(os.Args[2], os.Args[3]))
	case "child":
		if len(os.Args) < 4 {
			usage()
		}
		os.Exit(child(os.Args[2], os.Args[3]))
	case "aux":
		// auxiliary child entry points (e.g. C15 incarnations)
		if len(os.Args) < 3 {
			usage()
		}
		f, ok := fw.Aux[os.Args[2]]
		if !ok {
			fmt.Fprintln(os.Stderr, "unknown aux", os.Args[2])
			os.Exit(2)
		}
		os.Exit(f(os.Args[3:]))
	case "replay":
		if len(os.Args) < 3 {
			usage()
		}
		os.Exit(replay(os.Args[2]))
	case "list":
		ids := []string{}
		for id := range fw.Registry {
			ids = append(ids, id)
		}
		sort.Strings(ids)
		for _, id := range ids {
			fmt.Println(id, "race="+strconv.FormatBool(fw.Registry[id].Race))
		}
	default:
		usage()
	}
}

func usage() {
	fmt.Fprintln(os.Stderr, "usage: wv check|child <id> <quick|thorough> | replay <path> | list")
	os.Exit(2)
}

func seedFor(tier string) int64 {
	if s := os.Getenv("VERIF_SEED"); s != "" {
		if v, err := strconv.ParseInt(s, 10, 64); err == nil {
			return v
		}
	}
	if tier == "thorough" {
		return 20260928
	}
	return 1
}

func child(id, tier string) int {
	spec, ok := fw.Registry[id]
	if !ok {
		fmt.Fprintln(os.Stderr, "unknown check", id)
		return 2
	}
	c := fw.NewCtx(id, tier, seedFor(tier))
	spec.Run(c)
	res := c.Finish()
	buf, _ := json.Marshal(res)
	if w := os.Getenv("VERIF_WORK"); w != "" {
		os.WriteFile(filepath.Join(w, "result.json"), buf, 0644)
	}
	for _, l := range res.Lines {
		fmt.Println(l)
	}
	return res.ExitCode
}

func parent(id, tier string) int {
	spec, ok := fw.Registry[id]
	if !ok {
		fmt.Fprintln(os.Stderr, "unknown check", id)
		return 2
	}
	if tier != "quick" && tier != "thorough" {
		usage()
	}
	seed := seedFor(tier)
	work := filepath.Join(fw.Root, ".work", fmt.Sprintf("%s.%s.%d", id, tier, os.Getpid()))
	os.RemoveAll(work)
	if err := os.MkdirAll(work, 0755); err != nil {
		fmt.Fprintln(os.Stderr, err)
		return 2
	}
	defer os.RemoveAll(work)
	os.Remove(filepath.Join(fw.Root, "evidence", id+".json"))

	logPath := filepath.Join(work, "child.log")
	logf, err := os.Create(logPath)
	if err != nil {
		fmt.Fprintln(os.Stderr, err)
		return 2
	}
	cmd := exec.Command(os.Args[0], "child", id, tier)
	cmd.Stdout = logf
	cmd.Stderr = logf
	cmd.Env = append(os.Environ(),
		"VERIF_WORK="+work,
		"VERIF_SEED="+strconv.FormatInt(seed, 10),
		"VERIF_TIER="+tier,
		"GOTRACEBACK=all",
	)
	if spec.Race {
		cmd.Env = append(cmd.Env, "GORACE=halt_on_error=0 exitcode=0 history_size=3 log_path="+filepath.Join(work, "race"))
	}
	timeout := spec.QuickTimeout
	if tier == "thorough" {
		timeout = spec.ThoroughTimeout
	}
	if timeout == 0 {
		timeout = 15 * time.Minute
		if tier == "thorough" {
			timeout = 90 * time.Minute
		}
	}
	start := time.Now()
	if err := cmd.Start(); err != nil {
		fmt.Fprintln(os.Stderr, err)
		return 2
	}
	done := make(chan error, 1)
	go func() { done <- cmd.Wait() }()
	timedOut := false
	select {
	case <-done:
	case <-time.After(timeout):
		timedOut = true
		cmd.Process.Signal(syscall.SIGQUIT)
		select {
		case <-done:
		case <-time.After(10 * time.Second):
			cmd.Process.Kill()
			<-done
		}
	}
	logf.Close()
	logBytes, _ := os.ReadFile(logPath)
	// keep the last log for inspection
	os.WriteFile(filepath.Join(fw.Root, ".work", fmt.Sprintf("last-%s-%s.log", id, tier)), tailBytes(logBytes, 4<<20), 0644)

	var res fw.Result
	haveResult := false
	if buf, err := os.ReadFile(filepath.Join(work, "result.json")); err == nil {
		if json.Unmarshal(buf, &res) == nil {
			haveResult = true
		}
	}
	exit := 0
	lines := []string{}
	extraViolations := 0
	if haveResult {
		lines = append(lines, res.Lines...)
		exit = res.ExitCode
	} else if timedOut {
		lines = append(lines, fmt.Sprintf("INCONCLUSIVE property=%s watchdog fired after %s (goroutine dump in .work/last-%s-%s.log)", id, timeout, id, tier))
		exit = 3
	} else {
		// the child died: a crash inside the system under test is a violation
		key, what, wit := classifyCrash(string(logBytes))
		l, isKnown := fw.ReportExtra(id, tier, seed, key, what, wit)
		lines = append(lines, l...)
		if !isKnown {
			extraViolations++
			exit = 1
		}
	}
	if spec.Race {
		reports := collectRaces(work)
		for _, r := range reports {
			l, isKnown := fw.ReportExtra(id, tier, seed, r.key, "data race reported by the Go race detector: "+r.key, map[string]interface{}{"report": r.text, "count": r.count})
			lines = append(lines, l...)
			if !isKnown {
				extraViolations++
				exit = 1
			}
		}
		fw.PatchEvidence(id, map[string]interface{}{"race_reports_distinct": len(reports), "race_detector": "go build -race, GORACE=halt_on_error=0"}, extraViolations)
	} else if extraViolations > 0 {
		fw.PatchEvidence(id, nil, extraViolations)
	}
	if !haveResult {
		fw.EnsureEvidence(id, tier, seed, time.Since(start).Seconds(), extraViolations)
	}
	for _, l := range lines {
		fmt.Println(l)
	}
	if exit != 0 && !haveResult {
		fmt.Println("---- child log tail ----")
		fmt.Println(string(tailBytes(logBytes, 6000)))
	}
	return exit
}

func tailBytes(b []byte, n int) []byte {
	if len(b) <= n {
		return b
	}
	return b[len(b)-n:]
}

var frameRe = regexp.MustCompile(`(?m)^((?:github\.com/vx-labs/wasp/v4|github\.com/vx-labs/[a-z-]+|wv)[^\s(]*)\(`)

func classifyCrash(log string) (key, what string, witness interface{}) {
	idx := -1
	for _, marker := range []string{"panic: ", "fatal error: ", "unexpected signal", "SIGSEGV"} {
		if i := strings.Index(log, marker); i >= 0 && (idx < 0 || i < idx) {
			idx = i
		}
	}
	lastCase := ""
	if i := strings.LastIndex(log, "CASE "); i >= 0 {
		end := strings.IndexByte(log[i:], '\n')
		if end < 0 {
			end = len(log) - i
		}
		lastCase = log[i : i+end]
	}
	if idx < 0 {
		return "child-died", "the check's child process died without a result", map[string]interface{}{"last_case": lastCase, "log_tail": string(tailBytes([]byte(log), 3000))}
	}
	msgEnd := strings.IndexByte(log[idx:], '\n')
	if msgEnd < 0 {
		msgEnd = len(log) - idx
	}
	msg := log[idx : idx+msgEnd]
	top := ""
	rest := log[idx:]
	// first goroutine stack after the message
	if m := frameRe.FindStringSubmatch(rest); m != nil {
		top = m[1]
	}
	excerpt := rest
	if len(excerpt) > 5000 {
		excerpt = excerpt[:5000]
	}
	return "crash:" + top, "process crashed: " + fw.Short(msg, 200) + " (first wasp/harness frame: " + top + ")",
		map[string]interface{}{"last_case": lastCase, "stack": excerpt}
}

type raceReport struct {
	key   string
	text  string
	count int
}

var raceFuncRe = regexp.MustCompile(`(?m)^  ([^\s]+)\(\)\n`)

func collectRaces(work string) []raceReport {
	files, _ := filepath.Glob(filepath.Join(work, "race.*"))
	byKey := map[string]*raceReport{}
	for _, f := range files {
		buf, err := os.ReadFile(f)
		if err != nil {
			continue
		}
		blocks := strings.Split(string(buf), "WARNING: DATA RACE")
		for _, b := range blocks[1:] {
			if end := strings.Index(b, "=================="); end >= 0 {
				b = b[:end]
			}
			// the two access stacks are the first two paragraphs
			paras := strings.Split(b, "\n\n")
			tops := []string{}
			for _, p := range paras {
				if len(tops) == 2 {
					break
				}
				if !(strings.Contains(p, "by goroutine") || strings.Contains(p, "by main goroutine")) || strings.Contains(p, "created at") {
					continue
				}
				top := ""
				for _, m := range raceFuncRe.FindAllStringSubmatch(p+"\n", -1) {
					fn := m[1]
					if strings.HasPrefix(fn, "runtime.") || strings.HasPrefix(fn, "sync.") || strings.HasPrefix(fn, "sync/atomic.") {
						continue
					}
					top = fn
					break
				}
				tops = append(tops, top)
			}
			sort.Strings(tops)
			key := "race:" + strings.Join(tops, "|")
			// both accesses inside one third-party module (no wasp frame on top of either
			// stack): one finding per module, whatever pair of its functions shows up
			if len(tops) == 2 {
				m0, m1 := modOf(tops[0]), modOf(tops[1])
				if m0 != "" && m0 == m1 && !strings.HasPrefix(m0, "github.com/vx-labs/wasp") && m0 != "wv" {
					key = "race:dependency:" + m0
				}
			}
			r := byKey[key]
			if r == nil {
				txt := b
				if len(txt) > 6000 {
					txt = txt[:6000]
				}
				r = &raceReport{key: key, text: "WARNING: DATA RACE" + txt}
				byKey[key] = r
			}
			r.count++
		}
	}
	keys := []string{}
	for k := range byKey {
		keys = append(keys, k)
	}
	sort.Strings(keys)
	out := []raceReport{}
	for _, k := range keys {
		out = append(out, *byKey[k])
	}
	return out
}

// modOf returns the import path of the package a function belongs to, cut to
// the module-looking prefix (host/org/repo).
func modOf(fn string) string {
	slash := strings.LastIndex(fn, "/")
	dot := strings.Index(fn[slash+1:], ".")
	if dot < 0 {
		return ""
	}
	pkg := fn[:slash+1+dot]
	parts := strings.Split(pkg, "/")
	if len(parts) >= 3 && strings.Contains(parts[0], ".") {
		return strings.Join(parts[:3], "/")
	}
	return pkg
}

func replay(path string) int {
	buf, err := os.ReadFile(path)
	if err != nil {
		fmt.Fprintln(os.Stderr, err)
		return 2
	}
	var r struct {
		Property string `json:"property"`
		Tier     string `json:"tier"`
		Seed     int64  `json:"seed"`
		Key      string `json:"key"`
		What     string `json:"what"`
	}
	if err := json.Unmarshal(buf, &r); err != nil {
		fmt.Fprintln(os.Stderr, err)
		return 2
	}
	fmt.Printf("replaying property=%s tier=%s seed=%d (recorded: key=%s %s)\n", r.Property, r.Tier, r.Seed, r.Key, r.What)
	os.Setenv("VERIF_SEED", strconv.FormatInt(r.Seed, 10))
	os.Setenv("VERIF_REPLAY_KEY", r.Key)
	return parent(r.Property, r.Tier)
}
