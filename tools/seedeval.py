#!/usr/bin/env python3
"""Confirm a seeded change and run the property's check against it.

usage: seedeval.py <source dir with patch.diff, demo/, meta.json> <seed id> [--checks C01,C08] [--tier quick]

Steps (scratch worktree under /tmp/ev, removed afterwards):
  1. the patch applies to /repo's HEAD, the project builds, the repository suite passes with it
  2. the demonstration fails with the patch and passes without it
  3. the patch is applied to /repo, the check(s) are run, the patch is undone
Results go to /verif/seeded/<id>/ (patch.diff, demo/, meta.json).
"""
import json, os, re, shutil, subprocess, sys, time

ENV = dict(os.environ, GOFLAGS="-mod=mod", GOPROXY="off", GOSUMDB="off", GOTOOLCHAIN="local")

def sh(cmd, cwd=None, timeout=1800):
    p = subprocess.run(cmd, shell=True, cwd=cwd, env=ENV, stdout=subprocess.PIPE, stderr=subprocess.STDOUT, text=True, timeout=timeout)
    return p.returncode, p.stdout

def main():
    src, sid = sys.argv[1], sys.argv[2]
    checks = None
    tier = "quick"
    for i, a in enumerate(sys.argv):
        if a == "--checks":
            checks = sys.argv[i + 1].split(",")
        if a == "--tier":
            tier = sys.argv[i + 1]
    meta = json.load(open(os.path.join(src, "meta.json")))
    prop = re.match(r"C\d+", meta.get("property", sid)).group(0)
    if checks is None:
        checks = [prop]
    out = {"id": sid, "property": prop, "summary": meta.get("summary"), "needs_to_manifest": meta.get("needs_to_manifest"),
           "author_demo_cmd": meta.get("author_demo_cmd") or meta.get("demo_cmd"),
           "author_result_with_change": meta.get("author_result_with_change") or meta.get("result_with_change"),
           "author_result_without_change": meta.get("author_result_without_change") or meta.get("result_without_change"), "confirmed": {}}
    wt = "/tmp/ev/wt-" + sid
    sh("git -C /repo worktree remove --force %s" % wt)
    shutil.rmtree(wt, ignore_errors=True)
    os.makedirs("/tmp/ev", exist_ok=True)
    rc, o = sh("git -C /repo worktree add -q --detach %s HEAD" % wt)
    patch = os.path.abspath(os.path.join(src, "patch.diff"))
    try:
        rc, o = sh("git apply %s" % patch, cwd=wt)
        if rc != 0:
            rc, o2 = sh("git apply -3 %s" % patch, cwd=wt)
            o += o2
        out["confirmed"]["patch_applies_to_head"] = rc == 0
        if rc != 0:
            out["confirmed"]["apply_output"] = o[-1500:]
            return finish(out, src, sid, None)
        # regenerate the patch against HEAD (in case of 3-way)
        rc, headpatch = sh("git diff HEAD", cwd=wt)
        rc, o = sh("go build ./... && go build -tags verif ./...", cwd=wt)
        out["confirmed"]["builds"] = rc == 0
        if rc != 0:
            out["confirmed"]["build_output"] = o[-1500:]
            return finish(out, src, sid, headpatch)
        rc, o = sh("go test -vet=off -count=1 ./...", cwd=wt)
        out["confirmed"]["suite_passes_with_change"] = rc == 0
        if rc != 0:
            out["confirmed"]["suite_output"] = o[-1500:]
        # demo
        dp = meta.get("demo_path_in_repo") or (meta.get("demo_files") or [""])[0]
        demo_dir_in_repo = os.path.dirname(dp.split()[0]) if dp else ""
        demo_files = []
        for f in sorted(os.listdir(os.path.join(src, "demo"))):
            dst = os.path.join(wt, demo_dir_in_repo, f)
            os.makedirs(os.path.dirname(dst), exist_ok=True)
            shutil.copy(os.path.join(src, "demo", f), dst)
            demo_files.append(os.path.join(demo_dir_in_repo, f))
        cmd = re.sub(r"/tmp/wt/[a-h]\d+", wt, meta.get("demo_cmd", "")).replace("<worktree>", wt)
        out["demo_cmd"] = re.sub(re.escape(wt), "<worktree>", cmd)
        out["demo_files"] = demo_files
        rc1, o1 = sh(cmd, cwd=wt, timeout=900)
        out["confirmed"]["demo_fails_with_change"] = rc1 != 0
        out["confirmed"]["demo_with_change_tail"] = o1[-800:]
        sh("git reset -q --hard HEAD", cwd=wt)
        rc2, o2 = sh(cmd, cwd=wt, timeout=900)
        out["confirmed"]["demo_passes_without_change"] = rc2 == 0
        if rc2 != 0:
            out["confirmed"]["demo_without_change_tail"] = o2[-800:]
        # checks against /repo
        rc, o = sh("git -C /repo status --porcelain")
        if o.strip():
            out["confirmed"]["error"] = "/repo not clean"
            return finish(out, src, sid, headpatch)
        tmp = "/tmp/ev/%s.patch" % sid
        open(tmp, "w").write(headpatch)
        rc, o = sh("git -C /repo apply %s" % tmp)
        results = {}
        # evidence written while /repo is modified must not replace the evidence of the unchanged tree
        shutil.rmtree("/tmp/ev/evidence-keep", ignore_errors=True)
        shutil.copytree("/verif/evidence", "/tmp/ev/evidence-keep")
        try:
            if rc == 0:
                for ck in checks:
                    t0 = time.time()
                    rcc, oc = sh("./verif.sh check %s %s" % (ck, tier), cwd="/verif", timeout=7200)
                    keys = re.findall(r"^\s+key=(\S+)", oc, re.M)
                    results[ck] = {"tier": tier, "exit": rcc, "detected": rcc == 1 and "VIOLATION" in oc, "violation_keys": keys[:8], "wall_s": round(time.time() - t0, 1)}
                    if rcc not in (0, 1):
                        results[ck]["tail"] = oc[-600:]
        finally:
            sh("git -C /repo checkout -- .")
            sh("git -C /repo clean -fdq -- .")
            shutil.rmtree("/verif/evidence", ignore_errors=True)
            shutil.copytree("/tmp/ev/evidence-keep", "/verif/evidence")
        out["checks_run"] = results
        return finish(out, src, sid, headpatch)
    finally:
        sh("git -C /repo worktree remove --force %s" % wt)
        shutil.rmtree(wt, ignore_errors=True)

def finish(out, src, sid, headpatch):
    dst = os.path.join("/verif/seeded", sid)
    os.makedirs(os.path.join(dst, "demo"), exist_ok=True)
    same = os.path.realpath(src) == os.path.realpath(dst)
    if headpatch:
        open(os.path.join(dst, "patch.diff"), "w").write(headpatch)
    elif not same:
        shutil.copy(os.path.join(src, "patch.diff"), os.path.join(dst, "patch.diff"))
    if not same:
        for f in os.listdir(os.path.join(src, "demo")):
            shutil.copy(os.path.join(src, "demo", f), os.path.join(dst, "demo", f))
    prev = {}
    mp = os.path.join(dst, "meta.json")
    if os.path.exists(mp):
        try:
            prev = json.load(open(mp))
        except Exception:
            prev = {}
    # keep results of earlier runs of other checks/tiers
    merged = prev.get("checks_run", {})
    for k, v in out.get("checks_run", {}).items():
        merged[k + ("" if v["tier"] == "quick" else ":" + v["tier"])] = v
    out["checks_run"] = merged
    json.dump(out, open(mp, "w"), indent=1)
    c = out["confirmed"]
    det = {k: v["detected"] for k, v in out["checks_run"].items()}
    print(sid, "applies=%s suite=%s demo_fail=%s demo_pass=%s detected=%s" % (c.get("patch_applies_to_head"), c.get("suite_passes_with_change"), c.get("demo_fails_with_change"), c.get("demo_passes_without_change"), det))

main()
