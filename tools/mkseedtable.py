#!/usr/bin/env python3
"""Prints the markdown table of seeded changes from /verif/seeded/*/meta.json."""
import json, glob, re
notes = json.load(open('/verif/seeded/NOTES.json')) if __import__('os').path.exists('/verif/seeded/NOTES.json') else {}
print("| id | property | the change (one line) | needs | caught by (quick tier) with key | note |")
print("|----|----------|-----------------------|-------|----------------------------------|------|")
for d in sorted(glob.glob('/verif/seeded/*/meta.json')):
    m = json.load(open(d)); sid = m['id']
    det = []
    for k, v in sorted(m.get('checks_run', {}).items()):
        if v.get('detected'):
            keys = [re.sub(r'github.com/vx-labs/wasp/v4/', '', x) for x in v.get('violation_keys', [])[:1]]
            det.append("%s `%s`" % (k, keys[0] if keys else '?'))
        else:
            det.append("%s missed" % k)
    summ = re.sub(r'\s+', ' ', (m.get('summary') or ''))
    summ = summ[:150] + ('...' if len(summ) > 150 else '')
    needs = re.sub(r'\s+', ' ', (m.get('needs_to_manifest') or ''))
    needs = needs[:110] + ('...' if len(needs) > 110 else '')
    print("| %s | %s | %s | %s | %s | %s |" % (sid, m['property'], summ.replace('|', '/'), needs.replace('|', '/'), '; '.join(det), notes.get(sid, '')))
