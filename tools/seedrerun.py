#!/usr/bin/env python3
"""Regression over the seeded changes: for every /verif/seeded/<id>/ apply patch.diff to /repo, run the
quick tier of the property's own check (plus the siblings recorded as the only detectors), undo.
Confirmation (suite, demonstration) is not repeated - tools/seedeval.py did that. Updates checks_run in
meta.json and prints one line per change.  usage: seedrerun.py [id ...]"""
import json, os, re, shutil, subprocess, sys, time, glob

ENV = dict(os.environ, GOFLAGS="-mod=mod", GOPROXY="off", GOSUMDB="off", GOTOOLCHAIN="local")

def sh(cmd, cwd=None, timeout=3600):
    p = subprocess.run(cmd, shell=True, cwd=cwd, env=ENV, stdout=subprocess.PIPE, stderr=subprocess.STDOUT, text=True, timeout=timeout)
    return p.returncode, p.stdout

ids = sys.argv[1:] or sorted(os.path.basename(os.path.dirname(p)) for p in glob.glob('/verif/seeded/C*/meta.json'))
for sid in ids:
    d = '/verif/seeded/' + sid
    meta = json.load(open(d + '/meta.json'))
    prop = meta['property']
    checks = [prop]
    own = meta.get('checks_run', {}).get(prop, {})
    if not own.get('detected'):
        checks += [k for k, v in meta.get('checks_run', {}).items() if v.get('detected') and ':' not in k]
    rc, o = sh("git -C /repo status --porcelain")
    if o.strip():
        print("ERROR /repo not clean"); sys.exit(2)
    rc, o = sh("git -C /repo apply %s/patch.diff" % d)
    if rc != 0:
        print(sid, "PATCH DOES NOT APPLY", o[-300:]); continue
    shutil.rmtree("/tmp/ev/evidence-keep", ignore_errors=True)
    shutil.copytree("/verif/evidence", "/tmp/ev/evidence-keep")
    res = {}
    try:
        for ck in checks:
            t0 = time.time()
            rcc, oc = sh("./verif.sh check %s quick" % ck, cwd="/verif", timeout=7200)
            keys = re.findall(r"^\s+key=(\S+)", oc, re.M)
            res[ck] = {"tier": "quick", "exit": rcc, "detected": rcc == 1 and "VIOLATION" in oc, "violation_keys": keys[:8], "wall_s": round(time.time() - t0, 1)}
            if rcc not in (0, 1):
                res[ck]["tail"] = oc[-600:]
    finally:
        sh("git -C /repo checkout -- .")
        sh("git -C /repo clean -fdq -- .")
        shutil.rmtree("/verif/evidence", ignore_errors=True)
        shutil.copytree("/tmp/ev/evidence-keep", "/verif/evidence")
    meta.setdefault('checks_run', {}).update(res)
    json.dump(meta, open(d + '/meta.json', 'w'), indent=1)
    print(sid, {k: v['detected'] for k, v in res.items()}, flush=True)
print("ALLDONE")
