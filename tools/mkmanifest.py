#!/usr/bin/env python3
"""Regenerates /verif/MANIFEST.json from the table below (kept valid at all times)."""
import json, os, subprocess
ROOT = os.path.dirname(os.path.dirname(os.path.abspath(__file__)))
props = [json.loads(l)["id"] for l in open(os.path.join(ROOT, "properties.jsonl"))]

# id -> (category, technique, level text, level note, design ref)
CHECKS = {
 "C19": ("exploration", "reference-model monitor (map[string][]byte) over exhaustively enumerated operation histories executed on the real tries",
         "Every history of <=4 (quick) / <=6,5 (thorough) operations over the prefix-sharing key set, with a Dump->Load round trip at every position, is executed against the real topics.Store and subscriptions.Tree and compared with a map after the history; seeded histories add empty-level and wildcard keys. Exhaustive for the stated bound, sampling beyond it.",
         "Trusts the Go runtime and the harness's 60-line map model; values are opaque non-empty byte strings.", "5/C19"),
 "C06": ("exploration", "shadow-set monitor over the real allocator: breadth-first exploration of all reachable allocator states for small ranges + seeded long histories",
         "All allocator states reachable for ranges of width 1-8 (quick) / 1-11 (thorough) are explored on the real allocator by executing every Get/Put(x) from every reached state and checking each return value and the free list against a shadow set; seeded histories of 10^5-10^6 calls cover the production range and drive mid-size ranges to exhaustion; writer-level scenarios with an 8-identifier pool, slow acknowledgers, exhaustion held for 900 ms, session end and an injected write failure; fan-out scenarios (one publish to 2-4 QoS 1 sessions, node-wide uniqueness of unacknowledged identifiers, out-of-order acknowledgements); acknowledgements racing back-to-back sweeps (an identifier is released by exactly one of the two); a concurrent Get/Put part. Complete for the small ranges, sampling beyond.",
         "Hook H1 exposes the unexported allocator and its free intervals; exhaustion value is any value outside [min,max].", "5/C06"),
 "C04": ("exploration", "reference-model monitor (map of in-flight entries with deadlines) over seeded operation histories on the real ack.Queue and both expiration.List implementations; exactly-once outcome counting under concurrent stress",
         "Seeded sequential histories (session names and identifiers whose concatenations coincide) with colliding deadlines (equal, same second, past, future), wrong-type and unknown acknowledgements, duplicate registrations and self re-arming callbacks are executed on the real queue; every callback is compared with a map model (one-second band for deadlines) and after final sweeps every registration must have exactly one outcome. The List interface is checked alone for both implementations, and exactly-once is re-checked with 8-16 goroutines and a concurrent sweeper, and with acknowledgements racing the sweep of the very second their deadlines fall into.",
         "Hook H4 exposes both list constructors. Deadlines are synthetic (no wall clock). Concurrency coverage is what the scheduler produced in the run.", "5/C04"),
 "C08": ("exploration", "reference-model monitor (LWW element set) over exhaustively enumerated delivery schedules into real replicas, plus seeded multi-origin scenarios with offset clocks",
         "Part A delivers every update list of <=4 (quick) / <=5 (thorough) add/remove updates over same and neighbouring keys, in every order, with every prefix re-delivered and every batching, to fresh real replicas through NotifyMsg and compares the listings with a reference LWW set (complete for that bound). Timestamps have the magnitude of UnixNano values and lie 3 ns apart. A concurrent part races a node's own writes on one topic with merges of ahead-stamped peer updates, and merges eight updates of one key from eight goroutines at once. Part B lets three real origin nodes with clocks offset by +-10 s issue real mutator calls with partial gossip and checks that origins and shuffled/duplicated/batched followers equal the LWW reference over the captured broadcasts.",
         "Hook H3 sets the package clock (single goroutine for part B). Timestamps distinct per key; exact ties are counted and give no verdict. Visible state compared on identity, value fields and LastAdded.", "5/C08"),
 "C09": ("exploration", "follower-equality monitor after every mutator call on a real node; exhaustive short call sequences plus seeded long ones",
         "After each real mutator call on node A (all sequences of <=4/<=5 calls over a 15-call alphabet including every bulk removal, and seeded sequences of 5-30 calls) the broadcasts A queued are delivered to a follower, which must then list exactly what A lists; a call that changes A's listing without queuing a broadcast is a violation. A third of the seeded sequences leave broadcasts queued across 2-4 calls; part C repeats retained-message changes under a clock that does not advance between calls; part D runs every sequence of <=3 calls with an audit sink that fails.",
         "Single clock domain (hook H3 counter). Follower equality is on the exported listings.", "5/C09"),
 "C10": ("exploration", "reference-model monitor (per-node LWW maps incl. tombstones) around real LocalState/MergeRemoteState exchanges after lossy gossip",
         "Seeded pairs of real node histories with 0-100% of the gossip between them lost for good, followed by a real snapshot exchange A->B, B->A, both ways or into a fresh node; the receiver's listing must equal the visible part of the LWW merge of both nodes' entries (removals included), a fresh node must list what the sender lists, and after both directions the nodes agree; retained histories under coarse clocks (advancing every 2-4 calls, never equal on the two nodes) must agree after exchanging both ways.",
         "Per-node reference built from the broadcasts each node issued/received (relies on C09). Ties give no verdict.", "5/C10"),
 "C16": ("exploration", "table-lookup oracle over exhaustively enumerated credential files loaded by the real FileHandler, plus end-to-end CONNECTs",
         "Every credential file of <=3 (quick) / <=4 (thorough) distinct users in every order with 2-field, 3-field and empty-mount-point lines (complete), seeded files of 4-6 entries, and the static handler (incl. candidates that split user+password elsewhere) are loaded by the real code; the empty store is a table too; every present, wrong, swapped and empty candidate and ten absent users with every stored password are authenticated and compared with an exact table lookup including the mount point. Wiring: getAuthHandler of cmd/wasp (package main, reached by a driver injected with go test -overlay) is fed configurations with both stores' settings present; candidates of both stores are tried against the chosen provider.",
         "Second field of a line = hex SHA-256 of the password. User names distinct and CSV-safe.", "5/C16"),
 "C01": ("exploration", "reference-matcher oracle (MQTT 3.1.1 4.7 on level arrays) over exhaustively enumerated filter x topic pairs on the real trie, seeded histories on the replicated index, and end-to-end delivery multisets behind a sentinel barrier",
         "Trie: every valid filter of <=4 levels over {a,b,c,+,#,''} against every topic of <=4 levels over {a,b,c,''} (complete), filter sets reached by different orders and subscribe/unsubscribe/re-subscribe histories (all pairs in thorough). Index: ByPattern after every step of seeded Create/Delete histories, then at a node that joins by full-state exchange and after an echoed exchange and a second delivery of every broadcast; Iterate must list exactly the active set. End to end: per-session multisets of uniquely tagged publishes compared with one-copy-per-matching-filter after a causal barrier.",
         "Reference matcher is the spec, not the code. '$' topics and the empty string are outside the alphabets. Subscribers use QoS 0 end to end so no retransmissions need discounting.", "5/C01"),
 "C02": ("exploration", "unique-tag conservation monitor at the client boundary over long publish streams against a broker node with the real on-disk commit log, behind a sentinel barrier",
         "2200 (quick) / 6000 (thorough) uniquely tagged, content-hashed messages from concurrent publishers cross the first log offset, segment rolls and the truncation point; further streams run after node restarts on the same data directory, with an inbound/outbound packet-identifier collision, with a QoS 2 subscriber that withholds PUBCOMP (overlapping deliveries), with retained empty-payload publishes, with a co-recipient whose connection rejects writes, and with a subscriber that joins between two publishes on one topic; every acknowledged QoS>=1 publish must reach every subscriber that stayed connected, intact.",
         "Duplicates allowed, QoS 0 publishes exempt. Barrier relies on per-publisher ordering and the FIFO log consumer/writer.", "5/C02"),
 "C07": ("exploration", "reference-model monitor (map topic -> last retained payload, filtered by the MQTT matcher) at store level for every filter, and at the client boundary between SUBACK and a two-stage barrier",
         "Store level: after seeded Set/Delete histories on the real replicated retained store, Get(filter) is compared with the model for every valid filter of <=4 levels over the alphabet (complete per history). A second replica fed in order / reversed / shuffled / by full-state exchange, two nodes with clocks 7 s apart, and two nodes with one clock whose gossip arrives 0-3 writes late (a clear may overtake the publish it clears), must answer like the model too. End to end: histories of retained publishes, clears and subscribes on one node and on a second node after in-order, reversed or lost-and-repaired replication; each new subscription must get exactly one retain-flagged copy per matching model topic with the latest payload, cleared topics nothing, standing subscribers unflagged live copies; a SUBSCRIBE repeated for a filter the session already holds is answered with the replay again.",
         "One filter per SUBSCRIBE. Publishes wait for PUBACK and for the standing subscriber's live copy before the next step (recipients are resolved when the writer handles a message).", "5/C07"),
 "C03": ("exploration", "trace-specification monitor over packets written to subscriber pipes, driven by forced expiry sweeps and scripted client replies",
         "Seeded response scripts (acknowledge in round k or never, QoS 2 two-stage, wrong-type and unknown-identifier replies, session end) over 1-4 in-flight deliveries on 1-3 sessions; after every forced sweep and PINGRESP barrier each delivery is checked against the retransmission specification (>=1+k copies with the same identifier and QoS, PUBREL stage, nothing after completion, identifier back in the pool and not before, identifiers freed after session end); one message may have several recipients with different QoS; sessions end by connection loss or by displacement; PUBACKs racing back-to-back sweeps must end either released-and-silent or still-allocated-and-retransmitted, never both; real-time scenarios without forced sweeps require >=3 copies in 11 s from the broker's own ticker.",
         "The harness owns the ack.Queue and calls Expire with synthetic future times; hook H1 reads the pool's free list. Lower bounds only (the 1 s ticker may add copies).", "5/C03"),
 "C05": ("fault_enumeration", "ordering monitor over one global sequence counter (log Append call/return, RPC call/return, client packet reads) with enumerated write-failure positions and a gated log",
         "For each seeded packet sequence every single fault position (k-th local write, each remote node unreachable, each remote log rejecting; combinations in thorough) is executed on a fresh 1-3 node cluster; an acknowledgement must be read only after a successful Append returned on every node and never when a write failed; log offers per tag must equal completed PUBLISH->PUBREL handshakes. Gated scenarios make 'acknowledged while the write is blocked' observable independently of machine speed; identifier-reuse scenarios place a sweep between two exchanges' deadlines; a second client holds unreleased publishes with the same identifiers; unreachable peers fail with the cluster library's own error values; a reply lost after the peer appended must not lead to a second append.",
         "Failures are injected at the messageLog and RPC transport interfaces (the boundaries the property names). Every node hosts a matching subscriber.", "5/C05"),
 "C14": ("fault_enumeration", "conservation monitor over per-node Append records, RPC records, PUBACKs and subscriber packets for every subset of unreachable destination nodes",
         "Seeded placements over 2-3 nodes joined by real gRPC over bufconn; for every topic, publisher and every subset of unreachable nodes one tagged publish (QoS 1 and 2 alternating), odd placements after full-state exchanges between all nodes; unreachable peers fail with the cluster library's own error values; in a fifth of the cases the publisher node's own log rejects the write (the other destinations must still be served); in a quarter the reply of a reachable destination is lost once after it appended (still exactly one append and delivery); a subscriber that unsubscribes between publishes on one topic gets none of the later ones; appends per node and tag, deliveries per subscriber and filter and the presence of the acknowledgement are compared with the placement-derived expectation after a sentinel barrier.",
         "Unreachability is injected at the transport's Call boundary. Gossip barrier before publishing.", "5/C14"),
 "C11": ("exploration", "state-predicate monitors over every node's listings and registries plus client-side EOF/PINGRESP observation, per termination cause; client-measured idle gaps for the no-spurious-end part",
         "Twelve termination causes (incl. a CONNACK that cannot be written, displacement followed by the newer session leaving, an outbound write failure at SUBACK through a fault-injecting connection, and displacement followed by the old host's failure) x subscription sets x 1-3 nodes with a running gossip pump: EOF at the client, absence of the session record, its subscriptions and its registry entry on every node (polled <=10 s), nothing written to the ended session afterwards, and at quiescence the dangling-subscription invariant. Idle clients within 0.8 x keep-alive (measured by the client itself) must still be answered.",
         "Wall-clock waits are real (keep-alive, the 3 s node-failure delay); scenarios whose measured gaps exceed the bound give no verdict.", "5/C11"),
 "C12": ("exploration", "schedule-controlled takeover scenarios (gossip pump and hook gates) with state-resolution and client-side monitors",
         "Full grid of pairs (placement x displaced session's event x timing incl. the three hook points: between lookup and removal of the earlier record, between removal and creation, and inside the old session's teardown) and seeded chains of three; every node must resolve the identifier to the newest session, the displaced session's PINGREQ must go unanswered and its connection be closed, and the newest session's record, subscription and deliveries must survive the old one's teardown; a bystander node receives the scenario's gossip in reverse order; a seeded half of all gossip is re-delivered late; the zero-length client identifier is used too; the newer session may also leave first.",
         "Hook H2 gates block the accepting / tearing-down goroutine at the named points; session ids are made predictable by the harness's authentication handler.", "5/C12"),
 "C13": ("exploration", "unique-tag delivery monitor at watcher clients on every node, per termination cause, behind a sentinel barrier",
         "Eight termination causes (incl. connection loss between CONNECT and CONNACK; a session that connects and disconnects inside one gossip interval before its host fails; node failure noticed by the survivors one after the other; zero-length will messages) and connection loss inside the client's own re-CONNECT window (hook gate) x will QoS/retain/topic x placement over 1-3 nodes; every matching watcher on a surviving node must receive the will exactly once on the client's topic, nobody after DISCONNECT, non-matching watchers nothing.",
         "A stray will after the barrier would be missed (publish workers are unordered).", "5/C13"),
 "C17": ("exploration", "non-interference monitor: every message carries its tenant in the tag; all packets read by every client of every tenant are compared after per-tenant barriers",
         "2-3 tenants (one mount point a prefix of another) x wildcard, tenant-looking and leading-slash filters/topics x shared client identifiers x publish (QoS 1 and 2) / retained / will (connection loss and node failure); no client may hold another tenant's tag, own-tenant deliveries must match the filter with byte-identical topics, shared-identifier sessions must stay served, also through overlapping QoS 2 handshakes that use the same packet identifier.",
         "Mount point = user name through the harness's authentication handler.", "5/C17"),
 "C18": ("exploration", "structure-aware mutation corpus sent to a broker in a child process; crash = child death (reported by the parent with the logged hex), liveness = witness clients' PINGRESP and tagged round trips",
         "About 1900 (quick) / 21000 (thorough) hostile streams incl. truncation at every offset, type/flag nibble sweeps, remaining-length and length-prefix corruption, protocol violations and seeded havoc, each on a fresh connection; forced expiry sweeps after every batch flush what the hostile sessions left in flight; 24 silent connections stay open throughout and a late client must still be admitted and served; two witness clients must stay connected, answer pings and complete publish/receive round trips.",
         "A client that stops reading is out of scope. Attribution of a crash is to the last logged streams.", "5/C18"),
 "C15": ("fault_enumeration", "offline checker over per-incarnation event logs of real consumer processes killed (SIGKILL to self) at exact hook points",
         "Chains of separate processes consume one on-disk log; each but the last is killed at one of four points of Consume (and inside the callback, from the recording writer) for offsets around batch edges, segment rolls and the truncation point, incl. a consumer far behind the head of a 3100-entry log clean stops on an empty log, and a scheduler that stalls for 0.9 s (and gives up if its context ends, as the real writer does), or cancelled after N hand-overs, with appends in between; every tenth message has a zero-length payload; the logs must show contiguous hand-over with the right payloads, restart at c+1 (or at c after a kill: the message in flight), and every appended offset handed over.",
         "Hook H5 (points) and a recording Writer hook. SIGKILL never interrupts an append (appends concurrent with consumption only in cancelled incarnations).", "5/C15"),
 "C20": ("exploration", "Go race detector over seven repeated stress workloads, each with its own oracle (porcupine linearizability for the registry, shadow set, exactly-once counting, LWW reference, conservation)",
         "Race-detector build; any report is a violation (de-duplicated by outermost frame pair). Workloads: registry (porcupine, per-key register), identifier pool, in-flight table with sweeper, both tries incl. stores rebuilt by Load, replicated state with concurrent merges, a merge race in which every update of one key is merged exactly once at the same moment, a session's filter list, a two-node broker storm with forced sweeps and push/pull, and the lifecycle / takeover / will / tenant / retransmission / cross-node scenarios of the other checks re-run under the detector.",
         "Sees only the interleavings the stress produced. A race inside the commit-log dependency is a recorded known finding.", "5/C20"),
}
NOT_YET = "check not built yet in this round (design in DESIGN.md section 5); will be claimed once its monitor exists"

def hook_commits():
    try:
        out = subprocess.check_output(["git", "-C", "/repo", "log", "--format=%H %s"], text=True)
    except Exception:
        return []
    return [l.split()[0] for l in out.splitlines() if " verif hooks:" in l]

m = {
 "version": 1,
 "setup_cmd": "./verif.sh setup",
 "hooks": {
  "guard": "verif",
  "enable": "go build -tags verif (the harness module replaces github.com/vx-labs/wasp/v4 by /repo and is always built with -tags verif)",
  "baseline_off_cmd": "cd /repo && GOFLAGS=-mod=mod GOPROXY=off GOSUMDB=off GOTOOLCHAIN=local go test -vet=off -count=1 -timeout 25m ./...",
  "source_commits": hook_commits(),
  "add_only": True,
 },
 "engines": [
  {"name": "wv", "path": "harness/cmd/wv", "serves_properties": sorted(CHECKS), "kind_free_text": "Go runner: parent launches each check in a child process (watchdog, crash and race-report collection); checks drive wasp's real packages and compare recorded events with reference models"},
 ],
 "checks": [],
 "notes": "Runtime monitoring only: every verdict comes from an oracle observing executions of the code in /repo built with -tags verif. Exit 0 held, 1 violation (VIOLATION line), 3 inconclusive.",
 "not_applicable": [],
}
for pid in props:
    if pid in CHECKS:
        cat, tech, text, note, ref = CHECKS[pid]
        m["checks"].append({
         "property_id": pid,
         "quick_cmd": f"./verif.sh check {pid} quick",
         "thorough_cmd": f"./verif.sh check {pid} thorough",
         "evidence_file": f"/verif/evidence/{pid}.json",
         "replay_cmd_template": "./verif.sh replay {path}",
         "engine": "wv",
         "level_claimed": {"category": cat, "text": text, "design_ref": "DESIGN.md section " + ref},
         "level_note": note,
         "technique": tech,
        })
    else:
        m["not_applicable"].append({"property_id": pid, "reason": NOT_YET})
json.dump(m, open(os.path.join(ROOT, "MANIFEST.json"), "w"), indent=1)
print("checks:", len(m["checks"]), "not_applicable:", len(m["not_applicable"]))
